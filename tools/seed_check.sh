#!/bin/bash
# tools/seed_check.sh <seed-dir> <ID> [VERIF_SEED] [tier]: runs ./check <ID> against a scratch copy of /repo HEAD with <seed-dir>/patch.diff applied
SD=$1; ID=$2; VS=${3:-1}; TIER=${4:-quick}
D=$(mktemp -d /tmp/seedchk.XXXXXX)
git -C /repo archive HEAD | tar -x -C "$D"
(cd "$D" && git init -q . && git apply "$SD/patch.diff") || { echo "$SD patch_failed"; rm -rf "$D"; exit 3; }
VERIF_EVIDENCE_DIR=/tmp/evidence_scratch HDC_REPO="$D" VERIF_SEED=$VS timeout 3000 /verif/check "$ID" --tier $TIER 2>&1 | grep -E "^VIOLATION|sub-check|held|violated|HARNESS" | cut -c1-400 | head -5
rm -rf "$D"
