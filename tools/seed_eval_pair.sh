#!/bin/bash
# tools/seed_eval_pair.sh <ID> <root> <v1> <v2>: evaluates two seeded changes of one property in parallel (scratch copies, removed afterwards)
ID=$1; ROOT=$2; shift 2
for v in "$@"; do
  if [ -f "$ROOT/$ID/$v/patch.diff" ] && [ -f "$ROOT/$ID/$v/demo.py" ]; then /verif/tools/seed_eval.sh $ID $v $ROOT/$ID/$v & fi
done
wait
