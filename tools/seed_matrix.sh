#!/bin/bash
# tools/seed_matrix.sh "<VERIF_SEED list>" [parallelism] [seed root]: every seeded change under /verif/seeded (or given root) x every VERIF_SEED.
# Prints one line per (change, seed): caught / missed / harness_error. Uses scratch copies of /repo HEAD; leaves nothing behind.
SEEDS=${1:-"1 2 3"}; P=${2:-8}; ROOT=${3:-/verif/seeded}
one() {
  key=$1; vs=$2; ROOT=$3
  pid=${key%%-*}
  D=$(mktemp -d /tmp/seedmx.XXXXXX)
  git -C /repo archive HEAD | tar -x -C "$D"
  (cd "$D" && git init -q . && git apply "$ROOT/$key/patch.diff") || { echo "$key seed=$vs patch_failed"; rm -rf "$D"; return; }
  out=$(VERIF_EVIDENCE_DIR=/tmp/evidence_scratch HDC_REPO="$D" VERIF_SEED=$vs timeout 3000 /verif/check "$pid" --tier quick 2>&1 | grep -E "^VIOLATION|HARNESS" | head -1)
  if echo "$out" | grep -q "^VIOLATION"; then r=caught; elif echo "$out" | grep -q HARNESS; then r=harness_error; else r=missed; fi
  echo "$key seed=$vs $r"
  rm -rf "$D"
}
export -f one
for k in $(ls $ROOT); do grep -q "\"status\": \"superseded" $ROOT/$k/meta.json 2>/dev/null && continue; for s in $SEEDS; do echo "$k $s $ROOT"; done; done | xargs -P $P -L 1 bash -c 'one $0 $1 $2'
