#!/bin/bash
# tools/multi_seed.sh "<seeds>" [parallelism]: every check x every VERIF_SEED on /repo (quick tier); evidence goes to a scratch dir
SEEDS=${1:-"2 3 4"}; P=${2:-6}
cd "$(dirname "$(readlink -f "$0")")/.."
for i in 01 02 03 04 05 06 07 08 09 10 11 12 13 14 15 16 17 18 19 20; do for s in $SEEDS; do echo "C$i $s"; done; done | \
  xargs -P $P -L 1 bash -c 'VERIF_EVIDENCE_DIR=/tmp/evidence_scratch_ms VERIF_SEED=$1 ./check $0 --tier quick > /tmp/ms_$0_$1.log 2>&1; echo $0 seed=$1 rc=$? $(grep -E "held|violated|HARNESS" /tmp/ms_$0_$1.log | tail -1 | cut -c1-120)'
