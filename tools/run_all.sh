#!/bin/bash
# tools/run_all.sh [tier] [parallelism] : run every registered check against /repo, print one line each
TIER=${1:-quick}; P=${2:-5}
cd "$(dirname "$(readlink -f "$0")")/.."
for i in 01 02 03 04 05 06 07 08 09 10 11 12 13 14 15 16 17 18 19 20; do echo C$i; done | \
  xargs -P $P -I{} bash -c "./check {} --tier $TIER > /tmp/runall_${TIER}_{}.log 2>&1; echo {} rc=\$? \$(grep -E 'held|violated|HARNESS' /tmp/runall_${TIER}_{}.log | tail -1)"
