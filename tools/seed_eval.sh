#!/bin/bash
# tools/seed_eval.sh <ID> <variant> [seed-dir]   -> evaluates one seeded change end to end in a scratch copy of /repo
# 1. patch applies to /repo HEAD  2. existing test suite passes with it  3. demo passes without / fails with the patch
# 4. does ./check <ID> (quick) catch it?  Writes <seed-dir>/eval.json ; removes the scratch copy.
set -u
ID=$1; V=$2; SD=${3:-/tmp/seeds/$ID/$V}
D=$(mktemp -d /tmp/seedeval.XXXXXX)
git -C /repo archive ${BASE:-HEAD} | tar -x -C "$D"
cd "$D" && git init -q . && git add -A >/dev/null && git -c user.email=a@b -c user.name=x commit -qm base >/dev/null
res() { echo "$1" ; }
DEMO_CLEAN=$(cd "$SD" && PYTHONPATH="$D" timeout 900 /venv/bin/python -W ignore demo.py >/tmp/seedeval.$$.clean 2>&1; echo $?)
if git apply "$SD/patch.diff" 2>/tmp/seedeval.$$.apply; then APPLIES=true; else APPLIES=false; fi
TESTS=skipped; DEMO_PATCHED=skipped; CHECK=skipped; CHECKOUT=""
if $APPLIES; then
  DEMO_PATCHED=$(cd "$SD" && PYTHONPATH="$D" timeout 900 /venv/bin/python -W ignore demo.py >/tmp/seedeval.$$.patched 2>&1; echo $?)
  if [ "${SKIP_TESTS:-0}" != "1" ]; then
    TESTS=$(cd "$D" && PYTHONPATH="$D" timeout 1800 /venv/bin/python -m pytest -q -p no:cacheprovider tests 2>&1 | tail -1)
  fi
  CHECKOUT=$(VERIF_EVIDENCE_DIR=/tmp/evidence_scratch HDC_REPO="$D" VERIF_SEED=${VERIF_SEED:-1} timeout 3000 /verif/check "$ID" --tier ${TIER:-quick} 2>&1 | grep -E "VIOLATION|sub-check|held|violated|HARNESS" | head -6)
  if echo "$CHECKOUT" | grep -q "^VIOLATION"; then CHECK=caught; elif echo "$CHECKOUT" | grep -q HARNESS; then CHECK=harness_error; else CHECK=missed; fi
fi
/venv/bin/python - "$SD/eval.json" "$ID" "$V" "$APPLIES" "$DEMO_CLEAN" "$DEMO_PATCHED" "$TESTS" "$CHECK" "$CHECKOUT" <<'P'
import json, sys
p, pid, v, applies, dc, dp, tests, check, out = sys.argv[1:10]
json.dump({"property": pid, "variant": v, "patch_applies": applies == "true", "demo_exit_clean": dc, "demo_exit_patched": dp,
           "tests_with_patch": tests, "check": check, "check_output": out.splitlines()}, open(p, "w"), indent=1)
print(pid, v, "applies=%s demo clean/patched=%s/%s tests=[%s] check=%s" % (applies, dc, dp, tests, check))
P
rm -rf "$D" /tmp/seedeval.$$.*
