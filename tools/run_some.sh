#!/bin/bash
# tools/run_some.sh <tier> <parallelism> <ID...>
TIER=$1; P=$2; shift 2
cd "$(dirname "$(readlink -f "$0")")/.."
for i in "$@"; do echo $i; done | xargs -P $P -I{} bash -c "./check {} --tier $TIER > /tmp/runsome_${TIER}_{}.log 2>&1; echo {} rc=\$? \$(grep -E 'held|violated|HARNESS' /tmp/runsome_${TIER}_{}.log | tail -1)"
