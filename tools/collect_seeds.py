#!/venv/bin/python
"""Copies confirmed seeded changes from /tmp/seeds into /verif/seeded/<Cxx-v>/ with a merged meta.json."""
import json, os, shutil, sys
STRENGTHENED = {
    "C05-b": "robust reference made set-valued (keep-previous / reset fallbacks at problematic reweightings) so that a band solved from fewer than two weighted valid cells matches no admissible outcome; spike families with negative levels and gaps added",
    "C06-b": "ws2doptvplc_tyx added to the offset-commutation relation (sub-check offset_tyx); it was also caught by C04's tyx sub-check from the start",
    "C09-a": "time axes stamped at noon / varying times of day and begin/end bounds with a time of day added to the generator",
    "C16-b": "int32 rasters and nodata values not representable in float32 (1e20, -9999.9, 2147483647) added to the accessor generator",
    "C20-b": "descending and wrapping (dekad-of-year style) label values added to the labeling generator; non-deterministic failures (uninitialised output) are now reported as violations instead of harness errors",
    "C12-a": "sub-check 'joint': two lazy results on the same dask cube evaluated in one dask.compute call must both equal their eager results",
    "C02-d": "smooth.run_variant hands every kernel a buffer of exactly its signature dtype and demands that it comes back unchanged (input immutability), for all of C02-C06",
    "C06-c": "series class 'lownoise' (residuals of a few units) and offsets that centre the data on zero added to the offset relation (C03's kernel oracle catches the early-stopped iteration as well)",
    "C11-d": "long daily / dekadal records across leap and non-leap years (ascending and reversed) added to the accessor sub-check",
    "C12-d": "integer series whose lag-1 correlation is exactly 0.5 (EXACT_HALF_TEMPLATES) placed next to strongly autocorrelated pixels in C12's thread-count sub-check and C04's tyx sub-check (where the threshold band is now decided by the library's own correlation instead of being discarded)",
    "C13-d": "gammastd_grp is compared on eight pixels per case incl. low-variability int16 rows (high gamma shape), where a single-precision fit shows in the rounded index",
    "C16-d": "valid pixels adjacent to the nodata value (nextafter, +-1e-4, int32 +-1..40) added to the raster generator",
    "C17-d": "mean_grp enumeration also run with ND=3 and ND=1 (values a partial sum of valid cells can reach); generated ND values 3 and 100 added",
    "C18-d": "sub-check 'history': one DataArray object, time labels re-assigned in place / values overwritten, croo() and lroo() queried in between",
    "C02-e": "sub-check 'accessor': placeholder independence through whits/whitsvc/whitswcv with nodata passed as ARGUMENT (0 included) on arrays that carry an unrelated nodata attribute",
    "C02-f": "huge finite fill values up to 1e200 and the float64 maximum added to the placeholder encodings",
    "C06-e": "sub-check 'accessor_linear': linear series through the accessors for uint8/int8/uint16/int16/int32/float32 rasters, incl. lines that leave the input dtype's range at edge gaps",
    "C07-e": "calibration windows expressed by dates BETWEEN the 10-day steps (begin up to 9 days early, end up to 9 days late) in the accessor path",
    "C10-e": "sub-check 'history': nodata attribute set / changed / removed in place and pixels overwritten between mktrend() calls on one array object",
    "C11-f": "time coordinates in datetime64[s|ms|us] covering years 1..9999 (nanoseconds only reach 1678..2261)",
    "C12-f": "cubes whose requested dimension order is also their MEMORY order (not a transposed view), forced for the widest dtype of every operation",
    "C14-e": "sub-check 'accessor_written': grouped mean with int8/uint8/int16 id arrays carrying 127..300 groups, compared with the model twice",
    "C15-e": "layout sub-check with nodata markers 0, -9999, 255 besides -32768",
    "C17-e": "int64 rasters with nodata values not representable in float32 (2147483647, 16777217, 2^40+1); the oracle compares with the float32 echo of nodata",
    "C17-f": "nodata passed as argument while the array carries a different nodata attribute ('both') also for mean_grp",
    "C19-f": "numeric axes starting below zero, so that the label 0 lies inside, at the end of, or off the axis",
    "C20-e": "daily labels in int16 / uint8 / uint16 / int8 arrays through the accessor (immutability was already checked, only int32 had been generated)"}
STRENGTHENED.update({
    "C01-g": "lambda handed to the core as Python int / numpy int64 / float32 besides float (the value is what counts)",
    "C01-h": "weight class 'long zero-weight run' (half the series or more, at the end, the start or inside) with lambda in 1e-6..1e-3, where the closing pivots fall to ~3 lambda / L^3",
    "C02-h": "encoding 'mixed': nodata cells, NaN and +-inf cells inside ONE series",
    "C03-g": "valid float cells a hair away from the nodata value (one ulp, 1e-9, 0.004 .. 0.5) in the kernel and accessor generators",
    "C04-h": "gap-free int16 series with a nodata value no int16 cell can hold (65535, NaN, 0.5, 40000, ...) containing the values such a number wraps to; also added to C02's placeholder relation",
    "C09-h": "sub-check 'long': daily axes of more than 32767 steps (ungrouped, and 2-3 groups of fewer than 32767 steps each)",
    "C10-g": "sub-check 'critical': for every length 8..200 (400 thorough) the tie-free series whose continuity-corrected Z lies just beyond / just inside the two-sided 5% critical value (n=156 gives Z=1.959968, between ndtri(0.975) and 1.96)",
    "C11-g": "sub-check 'accessor_history': one time coordinate object queried repeatedly while the caller modifies the arrays it was handed (where writable) or replaces the labels in place",
    "C12-g": "non-default dtype arguments (rolling.sum dtype=float64/int32, spi dtype=float32, zonal.mean dtype=float64) in the lazy-vs-eager relation - which exposed the genuine defect D16 on the unchanged tree",
    "C13-h": "a third of the gufunc cases hand every array argument over as a strided view (values in between plausible but different), compared with the interpreted source on the plain arrays",
    "C14-g": "third run of every gufunc with strided input views and strided out= rows inside guard buffers: guards intact, result equal to the contiguous call",
    "C14-h": "degenerate data kinds (constant, exactly linear, two levels) among the boundary inputs",
    "C15-g": "sub-check 'history': results handed out earlier are compared again at the end, with other same-shaped cubes and equal dask blocks processed in between",
    "C15-h": "sub-check 'history': nodata attribute set / changed / removed and cells overwritten in place between autocorr() calls on one object",
    "C16-g": "narrow integer cubes (uint8, int16) with a nodata attribute outside their range (-1, 256, 40000, 65535) containing the values it would wrap to",
    "C16-h": "sub-check 'history': one cube and one zone raster edited in place between zonal.mean() / do_mean() calls",
    "C17-g": "float32 series with one or two cells of 1e20 / 3e38 / 2^40 among small numbers: every window without such a cell must still be exact",
    "C18-g": "descending time axes that are still regular (DatetimeIndex with negative freq from date_range(freq='-10D') or a reversing slice)",
    "C18-h": "sub-check 'aliasing': several same-shaped rasters of >= 32768 pixels (separate cubes, Dataset variables, equal dask blocks) processed one after the other, all results compared at the end",
    "C19-g": "sub-check 'history': axis relabelled in place / cells overwritten between iteragg calls on one object, compared with a brand-new object",
    "C19-h": "the cube as the variables of a Dataset (a and 2a) with NaN cells"})
STRENGTHENED.update({
    "C01-i": "y and w handed to the core in integer / bool / float32 dtypes (integral series, 0/1 masks)",
    "C01-j": "fill values rasters really carry (1e20, -3.4e38, 9.97e36, the float64 maximum) at zero-weight cells - what such a cell holds is irrelevant to the solution",
    "C03-j": "accessor cases carry an unrelated nodata ATTRIBUTE while nodata (0 included) is passed as argument",
    "C05-i": "sranges whose candidates are not sorted (descending, shuffled) in the non-robust symmetric GCV sub-check",
    "C06-i": "generic sub-check 'history' (harness/history.py) installed in C06: in-place edits between smoother calls on one object, compared with a brand-new object",
    "C06-j": "accessor_linear cases pass nodata=0 on arrays that carry an unrelated nodata attribute",
    "C09-i": "generic sub-check 'history' with sticky arguments (one query differs from the previous one in a single argument - here only the arrangement of the same group labels under the same window); written after reading the seed's report and before its first evaluation, the check as it stood had no history on one object and would have missed it",
    "C11-j": "dekadal axes (stamps on the 1st/11th/21st, optionally with hours) with repeated and missing dekads",
    "C12-i": "neighbouring pixels that agree on all but the first and last step (always for the SPI operations, half of the other cubes)",
    "C13-i": "sub-check 'large': inputs of >= 2^20 cells for do_mean, mean_grp, rolling_sum, lroo, autocorr_1d_int, compiled vs interpreted source on integer data, repeated compiled runs must agree (a program without an input generator is now counted, not a harness error)",
    "C13-j": "the same 'large' sub-check with a comparison to the last float32 digits (integer data, float64 accumulators)",
    "C16-i": "two lazy zonal means over the same zone values read with different zone nodata values evaluated in one graph - which exposed the genuine defect D17 on the unchanged tree",
    "C17-i": "sentinels at the edge of the dtype (float32 minimum, netCDF fill 9.97e36, int64 minimum) in mixed windows",
    "C18-j": "dask input with the time axis split into irregular chunks: refused, or the longest run of the whole series",
    "C19-i": "lazy cubes whose windows are all collected first and evaluated afterwards in one dask.compute",
    "C19-j": "int16 / uint8 / int32 cubes whose window sums exceed the storage dtype",
    "C20-i": "template, labels and observations handed over as strided views"})
STRENGTHENED.update({
    "C02-k": "sub-check 'gapfill_robust': the band of the robust GCV variants on gappy series (levels below / across zero emphasised) is held to the set-valued robust reference model on the valid cells only - a placeholder swap cannot see a missing cell that is treated as an observation of a fixed value",
    "C03-k": "missing cells of float series / cubes stored as NaN or +-inf next to a finite nodata value in C03's kernel and accessor generators (the kernel must hand its input buffer back unchanged)",
    "C07-k": "sub-check 'groups': 2-3 group sub-series with different zero shares, nodata cells and windows interleaved into one pixel; every group's cells are held to the definition evaluated on that group alone (gammastd_grp kernel and spi(groups=))",
    "C12-k": "rainfall cubes of C12 keep their nodata cells and a third of their negative cells (they were all made non-negative before), so pixels with cells that are not observations sit next to ordinary pixels in every block",
    "C12-l": "sub-check 'large': cubes of more than 2^20 cells per operation - 1 thread vs all threads (twice) vs dask blocks must be bit-identical",
    "C13-k": "smoother gufuncs get nodata values the int16 data cannot hold whose truncation (x.5) or wrap-around (x+65536) is a valid cell's value (a third of the cases)",
    "C15-k": "series class 'narrow band on a high level' (a few counts of variation at |level| 12000..32000) in the reference sub-check and pure level shifts of 15000..30000 in the affine relation",
    "C20-l": "sub-check 'joint': two lazy whitint results of one dask cube under two labelings with equally many periods evaluated in one dask.compute"})
STRENGTHENED.update({
    "C01-m": "a quarter of C01's cases are preceded by a call that hands the core the SAME weight array with a NaN / inf observation at a weighted cell (result ignored): the caller's arrays must be unchanged and the real call exact; y and w must come back unmodified from every call",
    "C03-m": "sub-check 'sg_reuse': one DataArray and one sgrid object across several whits(sg=) calls, the sgrid overwritten in place in between (oracle: brand-new objects with the same content)",
    "C04-m": "sub-check 'blocks' (harness/lazyblocks.py): whitsvc on 16 equally shaped dask blocks evaluated by 4-16 threads at once, three times, against the in-memory result",
    "C07-m": "half of the accessor cases are preceded by an spi() call with the same window arguments on another cube whose time axis has the same first step, last step and length but other steps in between",
    "C10-m": "sub-check 'blocks': mktrend on 4 equally shaped dask blocks of 1200 series x 110 steps evaluated by 8-16 threads at once, three times, against the in-memory result",
    "C14-m": "entry points that are no longer dispatchers themselves (a Python wrapper around compiled helpers) are still exercised, helpers without a generator are counted instead of stopping the check, and sub-check 'zone_edit' runs do_mean repeatedly on ONE zone raster object that is merged / masked in place in between, under bounds checking",
    "C16-m": "sub-check 'blocks': zonal.mean on ten equally shaped time-step blocks of 1.44 million pixels evaluated by 8-16 threads at once, three times, against the in-memory result",
    "C18-n": "croo on long records (130..1000 steps, current run of 127..1000 members) stored in uint8 / int8 / int16 / int32 / int64 cubes, rotated / reversed stored order",
    "C20-m": "sub-check 'buffers': the caller's template / label arrays refilled in place between whitint calls (oracle: brand-new arrays of the same content); results handed out earlier re-compared",
    "C06-n": "family 'small_signal_far_offset' in the offset relation: 800 pgu pairs per quick run with a seasonal signal of 5..60 counts shifted by +-9000..9800 (a violating pair comes up about once in 270 such cases)",
    "C13-n": "C13 'large': rolling_sum on 60000 float32 cells (multiples of 0.1) with a window of n - 2, compared at 2 ulp - the unchanged source fixes the order of the float32 additions, in the interpreter and in compiled code alike"})
FIRST = {k: "missed" for k in STRENGTHENED}  # result of the first evaluation, before the strengthening the seed prompted
SUPERSEDED = {
    "C12-j": "superseded: confirmed and caught on hdc-algo 2da843a; it rewrote the dask key of zonal.mean, the line that the repair of D17 (0318712) now owns, so the patch no longer applies to the repaired tree; at its own base commit it is caught by C12's joint sub-check",
    "C16-i": "superseded: confirmed on hdc-algo 2da843a (tests pass, demo fails); the joint evaluation it prompted exposed the genuine defect D17 in the same line (the dask key of zonal.mean), repaired by 0318712, after which the patch no longer applies; at its own base commit it is caught",
    "C12-g": "superseded: the patch was confirmed on hdc-algo e8a493c (tests pass, demo fails); the non-default dtype arguments it prompted in C12 exposed the genuine defect D16 in the same lines, repaired by 2da843a, after which the patch no longer applies (its failure mode - a lazy result whose computed dtype differs from the declared one - is what the repaired code and the regress files d16_* pin down)",
    "C15-c": "superseded: the patch applied to hdc-algo 26e16c3 (where it was confirmed and caught); after the repair 1d112b8 (float autocorr subtracts the first valid value) it no longer applies, and the failure mode it seeded (float32 products of large values) cannot be re-created on the repaired code because the products are formed from shifted, small values"}
REBASED = {
    "C12-a": "the repair of D17 (0318712) rewrote the line this patch changes; patch.diff is the same change (zones raster dropped from the dask key) re-applied by hand to the repaired line, confirmed again with tools/seed_eval.sh (suite passes, demo fails, check catches it); the author's patch against 2de2409 is kept as patch_original.diff",
    "C12-h": "the repair of D17 (0318712) rewrote the line this patch changes; patch.diff is the same change (in-memory zones raster identified by name/dims/shape/dtype instead of its content) re-applied by hand to the repaired line, confirmed again with tools/seed_eval.sh; the author's patch against e8a493c is kept as patch_original.diff"}
out_root = "/verif/seeded"
os.makedirs(out_root, exist_ok=True)
rows = []
for root, variants in (("/tmp/seeds", ("a", "b")), ("/tmp/seeds2", ("c", "d")), ("/tmp/seeds3", ("e", "f")), ("/tmp/seeds4", ("g", "h")), ("/tmp/seeds5", ("i", "j")), ("/tmp/seeds6", ("k", "l")), ("/tmp/seeds7", ("m", "n"))):
  if not os.path.isdir(root):
    continue
  for pid in sorted(os.listdir(root)):
    if not pid.startswith("C"):
        continue
    for v in variants:
        sd = "%s/%s/%s" % (root, pid, v)
        if not os.path.exists(sd + "/eval.json"):
            continue
        ev = json.load(open(sd + "/eval.json"))
        prev = json.load(open(sd + "/eval_first.json")) if os.path.exists(sd + "/eval_first.json") else ev
        meta = json.load(open(sd + "/meta.json"))
        key = "%s-%s" % (pid, v)
        tests = prev["tests_with_patch"] if prev["tests_with_patch"] != "skipped" else ev["tests_with_patch"]
        summ = json.load(open("/tmp/seeds/first_eval_summary.json")) if os.path.exists("/tmp/seeds/first_eval_summary.json") else {}
        if tests == "skipped" and key in summ:
            tests = summ[key][0]  # result of the full-suite run with the patch applied, from the first evaluation batch
        ok = ev["patch_applies"] and ev["demo_exit_clean"] == "0" and ev["demo_exit_patched"] not in ("0", "skipped") and "112 passed" in tests
        if not ok:
            print("NOT CONFIRMED", key, ev, tests)
            continue
        dst = os.path.join(out_root, key)
        os.makedirs(dst, exist_ok=True)
        if key in REBASED and os.path.exists(dst + "/patch_original.diff"):
            pass  # patch.diff is the rebased patch; the author's patch is kept as patch_original.diff
        else:
            shutil.copy(sd + "/patch.diff", dst + "/patch.diff")
        shutil.copy(sd + "/demo.py", dst + "/demo.py")
        m = {"id": key, "property": pid, "breaks": meta.get("summary"), "needs_to_manifest": meta.get("needs_to_manifest"),
             "files_changed": meta.get("files_changed"), "author": "independent sub-agent given only the property text and a scratch worktree",
             "author_verification": meta.get("verified"),
             "confirmed_by_me": {"base_commit": "hdc-algo HEAD at evaluation time (pinned tree + fix: commits; 2de2409 for round 1 a/b, 26e16c3 for round 2 c/d, e8a493c for rounds 3 e/f and 4 g/h, 2da843a for round 5 i/j, 0318712 for rounds 6 k/l and 7 m/n)", "patch_applies": True,
                                 "existing_tests_with_patch": tests, "demo_exit_code_clean_tree": 0, "demo_exit_code_patched_tree": int(ev["demo_exit_patched"]),
                                 "how": "tools/seed_eval.sh %s %s (scratch copy of /repo HEAD, git apply, pytest, demo on both trees, ./check %s --tier quick with HDC_REPO=<scratch>)" % (pid, v, pid)},
             "check_result_first_evaluation": FIRST.get(key, "caught"), "check_result_now": ev["check"],
             "caught_by": [l.strip() for l in ev["check_output"] if "sub-check" in l][:3]}
        if key in STRENGTHENED:
            m["strengthening_prompted_by_this_seed"] = STRENGTHENED[key]
        if key in REBASED:
            m["rebased"] = REBASED[key]
        if key in SUPERSEDED:
            m["status"] = SUPERSEDED[key]
        json.dump(m, open(dst + "/meta.json", "w"), indent=1)
        rows.append((key, m["check_result_first_evaluation"], ev["check"]))
for r in rows:
    print(*r)
print(len(rows), "seeds collected")
