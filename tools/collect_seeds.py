#!/venv/bin/python
"""Copies confirmed seeded changes from /tmp/seeds into /verif/seeded/<Cxx-v>/ with a merged meta.json."""
import json, os, shutil, sys
FIRST = {  # result of the first evaluation, before any strengthening prompted by the seed (see DESIGN.md section 9)
    "C05-b": "missed", "C06-b": "missed", "C09-a": "missed", "C16-b": "missed", "C20-b": "missed", "C12-a": "missed"}
STRENGTHENED = {
    "C05-b": "robust reference made set-valued (keep-previous / reset fallbacks at problematic reweightings) so that a band solved from fewer than two weighted valid cells matches no admissible outcome; spike families with negative levels and gaps added",
    "C06-b": "ws2doptvplc_tyx added to the offset-commutation relation (sub-check offset_tyx); it was also caught by C04's tyx sub-check from the start",
    "C09-a": "time axes stamped at noon / varying times of day and begin/end bounds with a time of day added to the generator",
    "C16-b": "int32 rasters and nodata values not representable in float32 (1e20, -9999.9, 2147483647) added to the accessor generator",
    "C20-b": "descending and wrapping (dekad-of-year style) label values added to the labeling generator; non-deterministic failures (uninitialised output) are now reported as violations instead of harness errors",
    "C12-a": "sub-check 'joint': two lazy results on the same dask cube evaluated in one dask.compute call must both equal their eager results",
    "C02-d": "smooth.run_variant hands every kernel a buffer of exactly its signature dtype and demands that it comes back unchanged (input immutability), for all of C02-C06",
    "C06-c": "series class 'lownoise' (residuals of a few units) and offsets that centre the data on zero added to the offset relation (C03's kernel oracle catches the early-stopped iteration as well)",
    "C11-d": "long daily / dekadal records across leap and non-leap years (ascending and reversed) added to the accessor sub-check",
    "C12-d": "integer series whose lag-1 correlation is exactly 0.5 (EXACT_HALF_TEMPLATES) placed next to strongly autocorrelated pixels in C12's thread-count sub-check and C04's tyx sub-check (where the threshold band is now decided by the library's own correlation instead of being discarded)",
    "C13-d": "gammastd_grp is compared on eight pixels per case incl. low-variability int16 rows (high gamma shape), where a single-precision fit shows in the rounded index",
    "C16-d": "valid pixels adjacent to the nodata value (nextafter, +-1e-4, int32 +-1..40) added to the raster generator",
    "C17-d": "mean_grp enumeration also run with ND=3 and ND=1 (values a partial sum of valid cells can reach); generated ND values 3 and 100 added",
    "C18-d": "sub-check 'history': one DataArray object, time labels re-assigned in place / values overwritten, croo() and lroo() queried in between"}
out_root = "/verif/seeded"
os.makedirs(out_root, exist_ok=True)
rows = []
for root, variants in (("/tmp/seeds", ("a", "b")), ("/tmp/seeds2", ("c", "d"))):
  for pid in sorted(os.listdir(root)):
    if not pid.startswith("C"):
        continue
    for v in variants:
        sd = "%s/%s/%s" % (root, pid, v)
        if not os.path.exists(sd + "/eval.json"):
            continue
        ev = json.load(open(sd + "/eval.json"))
        prev = json.load(open(sd + "/eval_first.json")) if os.path.exists(sd + "/eval_first.json") else ev
        meta = json.load(open(sd + "/meta.json"))
        key = "%s-%s" % (pid, v)
        tests = prev["tests_with_patch"] if prev["tests_with_patch"] != "skipped" else ev["tests_with_patch"]
        summ = json.load(open("/tmp/seeds/first_eval_summary.json")) if os.path.exists("/tmp/seeds/first_eval_summary.json") else {}
        if tests == "skipped" and key in summ:
            tests = summ[key][0]  # result of the full-suite run with the patch applied, from the first evaluation batch
        ok = ev["patch_applies"] and ev["demo_exit_clean"] == "0" and ev["demo_exit_patched"] not in ("0", "skipped") and "112 passed" in tests
        if not ok:
            print("NOT CONFIRMED", key, ev, tests)
            continue
        dst = os.path.join(out_root, key)
        os.makedirs(dst, exist_ok=True)
        shutil.copy(sd + "/patch.diff", dst + "/patch.diff")
        shutil.copy(sd + "/demo.py", dst + "/demo.py")
        m = {"id": key, "property": pid, "breaks": meta.get("summary"), "needs_to_manifest": meta.get("needs_to_manifest"),
             "files_changed": meta.get("files_changed"), "author": "independent sub-agent given only the property text and a scratch worktree",
             "author_verification": meta.get("verified"),
             "confirmed_by_me": {"base_commit": "hdc-algo HEAD at evaluation time (pinned tree + fix: commits; 2de2409 for round 1 a/b, 26e16c3 for round 2 c/d)", "patch_applies": True,
                                 "existing_tests_with_patch": tests, "demo_exit_code_clean_tree": 0, "demo_exit_code_patched_tree": int(ev["demo_exit_patched"]),
                                 "how": "tools/seed_eval.sh %s %s (scratch copy of /repo HEAD, git apply, pytest, demo on both trees, ./check %s --tier quick with HDC_REPO=<scratch>)" % (pid, v, pid)},
             "check_result_first_evaluation": FIRST.get(key, "caught"), "check_result_now": ev["check"],
             "caught_by": [l.strip() for l in ev["check_output"] if "sub-check" in l][:3]}
        if key in STRENGTHENED:
            m["strengthening_prompted_by_this_seed"] = STRENGTHENED[key]
        json.dump(m, open(dst + "/meta.json", "w"), indent=1)
        rows.append((key, m["check_result_first_evaluation"], ev["check"]))
for r in rows:
    print(*r)
print(len(rows), "seeds collected")
