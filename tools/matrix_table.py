#!/usr/bin/env python3
"""tools/matrix_table.py <seed_matrix log> -> markdown table (one row per property) for DESIGN.md section 12."""
import collections
import json
import os
import re
import sys

log = sys.argv[1]
res = collections.defaultdict(dict)
for line in open(log):
    m = re.match(r"(C\d\d)-([a-z]) seed=(\d+) (\w+)", line)
    if m:
        res[(m.group(1), m.group(2))][int(m.group(3))] = {"caught": "C", "missed": "M", "harness_error": "E", "patch_failed": "P"}[m.group(4)]
seeds = sorted({s for v in res.values() for s in v})
root = os.path.join(os.path.dirname(os.path.abspath(__file__)), "..", "seeded")
sup = {tuple(k.split("-")) for k in os.listdir(root) if "superseded" in str(json.load(open(os.path.join(root, k, "meta.json"))).get("status", ""))}
tot = sum(len(v) for v in res.values())
cnt = collections.Counter(c for v in res.values() for c in v.values())
print("%d runs (%d applicable seeded changes x %d VERIF_SEED values, quick tier): %d caught, %d missed, %d harness errors, %d patch failures. "
      "C = caught, M = missed, E = harness error." % (tot, len(res), len(seeds), cnt["C"], cnt["M"], cnt["E"], cnt["P"]))
print()
print("| property | seeded changes | VERIF_SEED %s |" % " / ".join(map(str, seeds)))
print("|---|---|---|")
for pid in sorted({k[0] for k in res} | {k[0] for k in sup}):
    vs = sorted({k[1] for k in res if k[0] == pid} | {k[1] for k in sup if k[0] == pid})
    cells = []
    for v in vs:
        if (pid, v) in sup:
            cells.append("%s superseded" % v)
        else:
            cells.append("%s %s" % (v, "".join(res[(pid, v)].get(s, "?") for s in seeds)))
    print("| %s | %d | %s |" % (pid, len(vs), "  ".join(cells)))
