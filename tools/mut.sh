#!/bin/bash
# tools/mut.sh <ID> <file relative to repo> <python-regex-old> <new> [extra check args]
# Sensitivity run: copy /repo's hdc tree to a scratch dir, apply one textual mutation, run the check on it, clean up.
set -u
ID=$1; FILE=$2; OLD=$3; NEW=$4; shift 4
D=$(mktemp -d /tmp/hdcmut.XXXXXX)
cp -r /repo/hdc "$D/hdc"
/venv/bin/python - "$D/$FILE" "$OLD" "$NEW" <<'P'
import re, sys
p, old, new = sys.argv[1:4]
s = open(p).read()
allsites = new.endswith("#ALL")
new = new[:-4] if allsites else new
s2, k = re.subn(old, new, s, count=0 if allsites else 1)
if k == 0:
    print("MUTATION DID NOT APPLY"); sys.exit(3)
open(p, "w").write(s2)
print("mutation applied (%d site)" % k)
P
rc=$?
if [ $rc -eq 0 ]; then
  VERIF_EVIDENCE_DIR=/tmp/evidence_scratch HDC_REPO="$D" /verif/check "$ID" "$@" 2>&1 | grep -v conda | grep -E "VIOLATION|sub-check|held|violated|HARNESS|KNOWN" | head -8
fi
rm -rf "$D"
