"""Equal-shaped dask blocks evaluated concurrently (threaded scheduler) must give what the in-memory call gives.

Used by property modules whose operation keeps per-call scratch state: state shared between concurrently running blocks (module-level
buffers, caches keyed on shapes) only shows when several equally shaped blocks are in flight at the same time and each block is big enough
for the kernels to overlap. The oracle is differential (the eager result, which the other sub-checks of the property decide)."""
from __future__ import annotations

import warnings

import numpy as np
import xarray as xr

from .util import call, req, fmt


def _vars(res):
    if isinstance(res, xr.Dataset):
        return {k: res[k] for k in res.data_vars}
    if isinstance(res, tuple):
        return {"out%d" % i: r for i, r in enumerate(res)}
    return {"result": res}


def check(what, fn, da, chunks, workers=8, repeats=3):
    """fn(DataArray) -> DataArray | Dataset. Compares fn(da) with fn(da.chunk(chunks)).compute(scheduler='threads') `repeats` times."""
    import dask

    with warnings.catch_warnings():
        warnings.simplefilter("ignore")
        eager = _vars(call(what + " (in memory)", lambda: fn(da)))
        for r in range(repeats):
            lz = call(what + " (lazy graph)", lambda: fn(da.chunk(chunks)))
            with dask.config.set(scheduler="threads", num_workers=workers):
                got = _vars(call(what + " (threaded compute)", lambda: lz.compute()))
            for k in eager:
                e, g = eager[k], got[k].transpose(*eager[k].dims)
                same = (e.values == g.values) | ((e.values != e.values) & (g.values != g.values))
                req(e.shape == g.shape and bool(same.all()),
                    "%s[%s]: %d equally shaped dask blocks on %d threads (run %d) differ from the in-memory result at %d of %d elements, e.g. %s vs %s" % (
                        what, k, int(np.prod([len(c) for c in lz.chunks])) if hasattr(lz, "chunks") and lz.chunks else -1, workers, r + 1,
                        int((~same).sum()) if e.shape == g.shape else -1, e.size, fmt(g.values[~same][:8] if e.shape == g.shape else [], 8),
                        fmt(e.values[~same][:8] if e.shape == g.shape else [], 8)), "concurrent equal blocks change the result")
