"""Histories on ONE xarray object: generated sequences of accessor calls interleaved with in-place edits.

The oracle is a differential one that needs no knowledge of the operation: at every query the long-lived object must answer exactly
like a brand-new object built from its current content (values, coordinates, attributes) - same values, dtype, dims, coords, attrs,
or the same kind of exception. (That a brand-new object answers correctly is what the other sub-checks of the property decide.)
Results handed out earlier are compared with a snapshot again at the end (no buffer may be shared between calls), and queries on
OTHER objects of the same shape are interleaved so that state keyed on shapes or kept at module level shows up as well.

A case is JSON: {"shape": [ny, nx, nt], "values": [...], "dtype": "int16", "attrs": {...}, "dims": [...], "step_days": 10,
"ops": [[kind, ...], ...]} with op kinds
  ["q", name, args]            query `name` (a key of the property's query table) with JSON arguments
  ["other", name, args, salt]  the same query on another object of the same shape (values derived from salt)
  ["set_attr", key, value] / ["del_attr", key]
  ["set_cell", i, j, t, value] in-place write into the object's buffer
  ["shift_time", days]         time labels replaced in place
"""
from __future__ import annotations

import warnings

import numpy as np
import pandas as pd
import xarray as xr
from hypothesis import strategies as st

from .core import Violation
from .util import fmt

T0 = pd.Timestamp("2001-01-01")


def build(case, values=None, attrs=None, t0=None):
    ny, nx, nt = case["shape"]
    v = np.array(case["values"] if values is None else values, dtype="float64").reshape(ny, nx, nt).astype(case["dtype"])
    t = pd.date_range(T0 if t0 is None else t0, periods=nt, freq="%dD" % case.get("step_days", 10))
    da = xr.DataArray(v, dims=("y", "x", "time"), coords={"time": t, "y": np.arange(ny) * 1.0, "x": np.arange(nx) * 2.0},
                      attrs=dict(case["attrs"] if attrs is None else attrs))
    dims = tuple(case.get("dims", ["y", "x", "time"]))
    if dims != ("y", "x", "time"):
        da = da.transpose(*dims)
        da = da.copy(data=np.ascontiguousarray(da.values))
    return da


def fresh_of(da):
    """A brand-new object with the same content (nothing shared with `da`, no accessor instance carried over)."""
    return xr.DataArray(np.array(da.values, copy=True), dims=da.dims,
                        coords={k: (c.dims, np.array(c.values, copy=True)) for k, c in da.coords.items()}, attrs=dict(da.attrs))


def _vars(res):
    if isinstance(res, xr.Dataset):
        return {k: res[k] for k in res.data_vars}
    return {"result": res}


def _call(fn, da, args):
    try:
        with warnings.catch_warnings():
            warnings.simplefilter("ignore")
            r = fn(da, args)
            if isinstance(r, (xr.DataArray, xr.Dataset)):
                r = r.compute()
            return r, None
    except Exception as e:  # noqa: BLE001 - exception parity is part of the oracle
        return None, e


def _describe(ops, k):
    return [o[0] + (":" + str(o[1]) if len(o) > 1 and o[0] in ("q", "other", "set_attr", "del_attr") else "") for o in ops[:k + 1]]


def same(what, live, fresh, sig):
    lv, fv = _vars(live), _vars(fresh)
    if set(lv) != set(fv):
        raise Violation("%s: variables %s, a new object with the same content gives %s" % (what, sorted(lv), sorted(fv)), sig)
    for k in fv:
        a, b = lv[k], fv[k]
        if a.dims != b.dims or a.dtype != b.dtype or a.shape != b.shape:
            raise Violation("%s[%s]: dims/dtype/shape %s %s %s, a new object with the same content gives %s %s %s" % (
                what, k, a.dims, a.dtype, a.shape, b.dims, b.dtype, b.shape), sig)
        if not np.array_equal(a.values, b.values, equal_nan=a.dtype.kind == "f"):
            raise Violation("%s[%s]: values %s, a new object with the same content gives %s" % (what, k, fmt(a.values.ravel(), 14), fmt(b.values.ravel(), 14)), sig)
        if dict(a.attrs) != dict(b.attrs):
            raise Violation("%s[%s]: attrs %s, a new object with the same content gives %s" % (what, k, dict(a.attrs), dict(b.attrs)), sig)
        for c in b.coords:
            if c not in a.coords or not np.array_equal(a.coords[c].values, b.coords[c].values):
                raise Violation("%s[%s]: coordinate %s differs from a new object with the same content" % (what, k, c), sig)
    if dict(getattr(live, "attrs", {})) != dict(getattr(fresh, "attrs", {})):
        raise Violation("%s: attrs %s, a new object with the same content gives %s" % (what, dict(live.attrs), dict(fresh.attrs)), sig)


def run_history(case, queries, pid):
    da = build(case)
    ops = case["ops"]
    held = []
    sig = "%s answer depends on the object's history" % pid
    for k, op in enumerate(ops):
        kind = op[0]
        if kind == "set_attr":
            da.attrs[op[1]] = op[2]
        elif kind == "del_attr":
            da.attrs.pop(op[1], None)
        elif kind == "set_cell":
            ny, nx, nt = case["shape"]
            da.loc[{"y": da.y[op[1] % ny], "x": da.x[op[2] % nx], "time": da.time[op[3] % nt]}] = op[4]
        elif kind == "shift_time":
            da["time"] = da.time.values + np.timedelta64(int(op[1]), "D")
        elif kind in ("q", "other"):
            fn = queries[op[1]]
            if kind == "other":
                salt = int(op[3])
                vals = (np.roll(np.array(case["values"], dtype="float64"), salt % 7 + 1) * ((salt % 3) + 1) // 2 + salt).tolist()
                target = build(case, values=vals)
                what = "%s(%s) on another object of the same shape after the history %s" % (op[1], op[2], _describe(ops, k))
            else:
                target = da
                what = "%s(%s) on the same object after the history %s" % (op[1], op[2], _describe(ops, k))
            fr = fresh_of(target)
            live, lerr = _call(fn, target, op[2])
            want, werr = _call(fn, fr, op[2])
            if (lerr is None) != (werr is None) or (lerr is not None and type(lerr) is not type(werr)):
                raise Violation("%s %s, a new object with the same content %s" % (
                    what, "raises %s: %s" % (type(lerr).__name__, str(lerr)[:120]) if lerr else "succeeds",
                    "raises %s: %s" % (type(werr).__name__, str(werr)[:120]) if werr else "succeeds"), sig)
            if lerr is None:
                same(what, live, want, sig)
                for name, v in _vars(live).items():
                    held.append((k, op[1], name, v, np.array(v.values, copy=True)))
    for k, qn, name, v, snap in held:
        if not np.array_equal(v.values, snap, equal_nan=snap.dtype.kind == "f"):
            raise Violation("the result of %s[%s] obtained at step %d changed afterwards (history %s): now %s, was %s" % (
                qn, name, k, _describe(ops, len(ops) - 1), fmt(v.values.ravel(), 12), fmt(snap.ravel(), 12)), "%s result aliased" % pid)


@st.composite
def history_case(draw, qargs, dtypes=("int16",), nt=(6, 14), cells=None, attr_values=(-9999, 0, 255), attrs0=None, step_days=(10,),
                 max_ops=8, shift=True, dims=(("y", "x", "time"), ("time", "y", "x"))):
    """qargs: dict query-name -> strategy of JSON args (may depend on the drawn nt via a callable taking nt)."""
    ny, nx = draw(st.sampled_from([(1, 1), (2, 1), (2, 2), (1, 3)]))
    n = draw(st.integers(*nt))
    cell = cells if cells is not None else st.one_of(st.integers(1, 3000), st.sampled_from(list(attr_values)))
    vals = draw(st.lists(cell, min_size=ny * nx * n, max_size=ny * nx * n))
    names = sorted(qargs)

    base = {}

    def q():
        # arguments are "sticky": a query mostly repeats the arguments of the previous query of its kind with ONE of them changed
        # (state kept between calls is typically keyed on some of the arguments and blind to the others)
        name = draw(st.sampled_from(names))
        s = qargs[name]
        new = draw(s(n) if callable(s) and not hasattr(s, "map") else s)
        if name in base and isinstance(new, dict) and new and draw(st.integers(0, 3)) != 0:
            key = draw(st.sampled_from(sorted(new)))
            new = dict(base[name], **({key: new[key]} if draw(st.integers(0, 4)) != 0 else {}))
        base[name] = new
        return ["q", name, new]

    ops = []
    for _ in range(draw(st.integers(2, max_ops))):
        k = draw(st.sampled_from(["q", "q", "q", "other", "set_attr", "del_attr", "set_cell"] + (["shift_time"] if shift else [])))
        if k == "q":
            ops.append(q())
        elif k == "other":
            o = q()
            ops.append(["other", o[1], o[2], draw(st.integers(0, 20))])
        elif k == "set_attr":
            ops.append(["set_attr", "nodata", draw(st.sampled_from(list(attr_values)))])
        elif k == "del_attr":
            ops.append(["del_attr", "nodata"])
        elif k == "set_cell":
            ops.append(["set_cell", draw(st.integers(0, 2)), draw(st.integers(0, 2)), draw(st.integers(0, n - 1)), draw(cell)])
        else:
            ops.append(["shift_time", draw(st.sampled_from([10, -10, 3, 365, 20]))])
    ops.append(q())
    a0 = attrs0 if attrs0 is not None else draw(st.sampled_from([{}, {"nodata": attr_values[0]}, {"nodata": attr_values[0]}]))
    return {"shape": [ny, nx, n], "values": vals, "dtype": draw(st.sampled_from(list(dtypes))), "attrs": dict(a0), "dims": list(draw(st.sampled_from(list(dims)))),
            "step_days": draw(st.sampled_from(list(step_days))), "ops": ops}


def nontrivial(case):
    kinds = [o[0] for o in case["ops"]]
    return kinds.count("q") >= 2 and any(k in ("set_attr", "del_attr", "set_cell", "shift_time", "other") for k in kinds)


def classes(case):
    kinds = [o[0] for o in case["ops"]]
    return ["ops=%d" % len(kinds)] + sorted(set(kinds)) + sorted({"q:" + o[1] for o in case["ops"] if o[0] in ("q", "other")})


def install(mod, queries, qargs, n=(150, 2000), **kw):
    """Add the sub-check 'history' to a property module: SUBS entry (replayable) + a generated run after the module's own run()."""
    pid = mod.PID

    def sub_history(case):
        run_history(case, queries, pid)

    sub_history.__doc__ = "Generic history on one object: see harness/history.py"
    mod.SUBS["history"] = sub_history
    orig = mod.run

    def run(ctx):
        orig(ctx)

        def f(case):
            ctx.rec.case("history", case, nontrivial=nontrivial(case), cls=classes(case))
            sub_history(case)

        ctx.given("history", history_case(qargs, **kw), ctx.n(*n), fn=f)

    mod.run = run


# ---- query tables shared by several properties ----------------------------------------------------------------------------------------
def _sr(a):
    return np.arange(a["sr"][2], dtype="float64") * a["sr"][1] + a["sr"][0]


def q_whits(da, a):
    return da.hdc.whit.whits(a["nodata"], s=a["s"], **({} if a.get("p") is None else {"p": a["p"]}))


def q_whitsvc(da, a):
    return da.hdc.whit.whitsvc(a["nodata"], srange=_sr(a), **({} if a.get("p") is None else {"p": a["p"]}))


def q_whitswcv(da, a):
    return da.hdc.whit.whitswcv(a["nodata"], srange=_sr(a), robust=a["robust"], **({} if a.get("p") is None else {"p": a["p"]}))


def q_spi(da, a):
    kw = {}
    if a.get("begin") is not None:
        kw["calibration_begin"] = str((T0 + pd.Timedelta(days=int(a["begin"]))).date())
    if a.get("end") is not None:
        kw["calibration_end"] = str((T0 + pd.Timedelta(days=int(a["end"]))).date())
    if a.get("names") is not None:
        nm, how, nt = a["names"], a.get("layout", "blocked"), da.sizes["time"]
        k = len(nm)
        kw["groups"] = ([nm[min(k - 1, t * k // nt)] for t in range(nt)] if how == "blocked" else [nm[t % k] for t in range(nt)] if how == "interleaved" else
                        [nm[k - 1 - min(k - 1, t * k // nt)] for t in range(nt)] if how == "reversed_blocks" else [nm[(t // 2) % k] for t in range(nt)])
    if a.get("nodata") is not None:
        kw["nodata"] = a["nodata"]
    return da.hdc.algo.spi(**kw)


def spi_args(nt):
    # the labels and their arrangement are separate arguments, so that one query can differ from the previous one in the arrangement only
    return st.fixed_dictionaries({"begin": st.one_of(st.none(), st.integers(-5, 10 * nt // 3)), "end": st.one_of(st.none(), st.integers(20 * nt // 3, 10 * nt + 5)),
                                  "names": st.sampled_from([None, ["a", "b"], ["wet", "dry"], [1, 2], ["10", "2", "7"]]),
                                  "layout": st.sampled_from(["blocked", "interleaved", "reversed_blocks", "pairs"]), "nodata": st.sampled_from([None, None, -9999, 0])})


def q_rolling(da, a):
    return da.hdc.rolling.sum(a["window"], **({} if a.get("nodata") is None else {"nodata": a["nodata"]}))


def q_mean_grp(da, a):
    nt = da.sizes["time"]
    return da.hdc.algo.mean_grp([t % a["k"] for t in range(nt)] if a["how"] == "interleaved" else [min(a["k"] - 1, t * a["k"] // nt) for t in range(nt)],
                                **({} if a.get("nodata") is None else {"nodata": a["nodata"]}))


def q_whitint(da, a):
    nt = da.sizes["time"]
    m = 10 * (nt - 1) + 1
    tm = np.zeros(m)
    tm[::10] = 1
    return da.hdc.whit.whitint((np.arange(m) // a["per"]).astype("int32"), tm)


NODATA_ARG = st.sampled_from([-3000, 0, -9999])
P_ARG = st.sampled_from([None, None, 0.9, 0.5, 0.2])
SR_ARG = st.sampled_from([[-2.0, 1.0, 4], [-1.0, 0.5, 6], [0.0, 0.2, 10], [-2.0, 0.4, 12]])
WHITS_ARGS = st.fixed_dictionaries({"nodata": NODATA_ARG, "s": st.sampled_from([0.1, 1.0, 10.0, 100.0]), "p": P_ARG})
WHITSVC_ARGS = st.fixed_dictionaries({"nodata": NODATA_ARG, "sr": SR_ARG, "p": P_ARG})
WHITSWCV_ARGS = st.fixed_dictionaries({"nodata": NODATA_ARG, "sr": SR_ARG, "p": P_ARG, "robust": st.booleans()})
ROLLING_ARGS = st.fixed_dictionaries({"window": st.integers(1, 4), "nodata": st.sampled_from([None, None, -9999, 0, 255])})
MEAN_GRP_ARGS = st.fixed_dictionaries({"k": st.integers(1, 3), "how": st.sampled_from(["interleaved", "blocked"]), "nodata": st.sampled_from([None, None, -9999, 0, 255])})
WHITINT_ARGS = st.fixed_dictionaries({"per": st.sampled_from([5, 7, 10])})
NDVI_CELLS = st.one_of(st.integers(100, 3000), st.integers(100, 3000), st.sampled_from([-3000, 0, -9999]))
