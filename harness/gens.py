"""Shared Hypothesis strategies. Every strategy yields plain JSON-able structures."""
from __future__ import annotations

import math

from hypothesis import strategies as st

VMAX = 10000

SERIES_CLASSES = ["seasonal", "walk", "iid", "constant", "linear", "step", "flat_spikes", "few_values", "extremes", "small", "edge_outlier", "lownoise", "low_amplitude"]
GAP_CLASSES = ["none", "isolated", "runs", "leading", "trailing", "lead_trail", "all_but_k", "alternating"]


def _clip(v, lo=-VMAX, hi=VMAX):
    return max(lo, min(hi, int(v)))


@st.composite
def series(draw, nmin=4, nmax=200, classes=None, vmax=VMAX, n=None):
    """-> {"cls": str, "y": [int]} with |y| <= vmax."""
    cls = draw(st.sampled_from(classes or SERIES_CLASSES))
    if n is None:
        n = draw(st.one_of(st.integers(nmin, min(nmax, nmin + 8)), st.integers(nmin, nmax)))
    ints = lambda lo, hi: st.integers(lo, hi)  # noqa: E731
    if cls == "iid":
        y = draw(st.lists(ints(-vmax, vmax), min_size=n, max_size=n))
    elif cls == "seasonal":
        base = draw(ints(-vmax // 2, vmax // 2))
        amp = draw(ints(0, vmax // 3))
        period = draw(st.floats(2.0, 80.0))
        nz = draw(ints(0, 600))
        noise = draw(st.lists(ints(-nz, nz), min_size=n, max_size=n))
        y = [_clip(round(base + amp * math.sin(2 * math.pi * t / period)) + noise[t], -vmax, vmax) for t in range(n)]
    elif cls == "walk":
        s = draw(ints(1, 400))
        steps = draw(st.lists(ints(-s, s), min_size=n, max_size=n))
        y, c = [], draw(ints(-vmax // 2, vmax // 2))
        for d in steps:
            c = _clip(c + d, -vmax, vmax)
            y.append(c)
    elif cls == "constant":
        y = [draw(ints(-vmax, vmax))] * n
    elif cls == "linear":
        a = draw(ints(-(vmax // max(n - 1, 1)), vmax // max(n - 1, 1)))
        lo = -vmax - min(0, a * (n - 1))
        hi = vmax - max(0, a * (n - 1))
        b = draw(ints(lo, hi)) if lo <= hi else 0
        y = [a * t + b for t in range(n)]
        y = [_clip(v, -vmax, vmax) for v in y]
    elif cls == "step":
        k = draw(ints(1, n - 1))
        a, b = draw(ints(-vmax, vmax)), draw(ints(-vmax, vmax))
        nz = draw(ints(0, 50))
        noise = draw(st.lists(ints(-nz, nz), min_size=n, max_size=n))
        y = [_clip((a if t < k else b) + noise[t], -vmax, vmax) for t in range(n)]
    elif cls == "flat_spikes":
        level = draw(ints(-vmax // 2, vmax // 2))
        y = [level] * n
        ns = draw(ints(1, max(1, (n - 1) // 2 - 1))) if n > 3 else 1
        pos = draw(st.lists(ints(0, n - 1), min_size=ns, max_size=ns, unique=True))
        for q in pos:
            y[q] = _clip(level + draw(st.one_of(ints(-4000, -1), ints(1, 4000))), -vmax, vmax)
    elif cls == "few_values":
        vals = draw(st.lists(ints(-vmax, vmax), min_size=2, max_size=3, unique=True))
        y = draw(st.lists(st.sampled_from(vals), min_size=n, max_size=n))
    elif cls == "edge_outlier":  # smooth base with a large residual at the first and/or the last step
        base = draw(ints(-vmax // 3, vmax // 3))
        amp = draw(ints(0, vmax // 6))
        period = draw(st.floats(4.0, 60.0))
        nz = draw(ints(0, 60))
        noise = draw(st.lists(ints(-nz, nz), min_size=n, max_size=n))
        y = [_clip(round(base + amp * math.sin(2 * math.pi * t / period)) + noise[t], -vmax, vmax) for t in range(n)]
        where = draw(st.sampled_from(["first", "last", "last", "both"]))
        for q in ([0] if where == "first" else [n - 1] if where == "last" else [0, n - 1]):
            y[q] = _clip(y[q] + draw(st.sampled_from([-1, 1])) * draw(ints(vmax // 10, vmax // 2)), -vmax, vmax)
    elif cls == "lownoise":  # smooth seasonal curve with residuals of a few units only
        base = draw(ints(-vmax // 2, vmax // 2))
        amp = draw(ints(20, vmax // 4))
        period = draw(st.floats(6.0, 80.0))
        nz = draw(ints(0, 4))
        noise = draw(st.lists(ints(-nz, nz), min_size=n, max_size=n))
        y = [_clip(round(base + amp * math.sin(2 * math.pi * t / period)) + noise[t], -vmax, vmax) for t in range(n)]
    elif cls == "low_amplitude":  # a level with a variation of a few units only (increments of an iteration stay below one unit)
        base = draw(ints(-vmax + 20, vmax - 20))
        amp = draw(ints(1, 8))
        steps = draw(st.lists(ints(-2, 2), min_size=n, max_size=n))
        y, c = [], 0
        for d in steps:
            c = max(-amp, min(amp, c + d))
            y.append(_clip(base + c, -vmax, vmax))
    elif cls == "small":  # values around zero: exact zeros and sign changes are frequent
        y = draw(st.lists(ints(-5, 5), min_size=n, max_size=n))
    else:  # extremes
        y = draw(st.lists(st.sampled_from([-vmax, vmax, -vmax + 1, vmax - 1, 0]), min_size=n, max_size=n))
    return {"cls": cls, "y": [int(v) for v in y]}


@st.composite
def gap_mask(draw, n, classes=None, min_valid=0):
    """-> {"gcls": str, "valid": [bool]}; True marks a valid cell. Built by construction, no filtering."""
    cls = draw(st.sampled_from(classes or GAP_CLASSES))
    v = [True] * n
    if cls == "isolated":
        rate = draw(st.sampled_from([0.05, 0.1, 0.2, 0.35, 0.5]))
        k = max(1, int(rate * n))
        for q in draw(st.lists(st.integers(0, n - 1), min_size=k, max_size=k, unique=True)):
            v[q] = False
    elif cls == "runs":
        for _ in range(draw(st.integers(1, 3))):
            a = draw(st.integers(0, n - 1))
            ln = draw(st.integers(1, max(1, n // 2)))
            for q in range(a, min(n, a + ln)):
                v[q] = False
    elif cls == "leading":
        for q in range(draw(st.integers(1, max(1, n - 2)))):
            v[q] = False
    elif cls == "trailing":
        for q in range(draw(st.integers(1, max(1, n - 2)))):
            v[n - 1 - q] = False
    elif cls == "lead_trail":
        a = draw(st.integers(1, max(1, (n - 2) // 2)))
        b = draw(st.integers(1, max(1, (n - 2) // 2)))
        for q in range(a):
            v[q] = False
        for q in range(b):
            v[n - 1 - q] = False
    elif cls == "all_but_k":
        k = draw(st.integers(0, min(6, n)))
        v = [False] * n
        for q in draw(st.lists(st.integers(0, n - 1), min_size=k, max_size=k, unique=True)):
            v[q] = True
    elif cls == "alternating":
        ph = draw(st.integers(0, 1))
        v = [(t + ph) % 2 == 0 for t in range(n)]
    # guarantee a minimum number of valid cells by re-validating cells (construction, not rejection)
    nv = sum(v)
    min_valid = min(min_valid, n)
    if nv < min_valid:
        invalid = [i for i in range(n) if not v[i]]
        need = min_valid - nv
        pick = draw(st.lists(st.sampled_from(invalid), min_size=need, max_size=need, unique=True))
        for q in pick:
            v[q] = True
    return {"gcls": cls, "valid": v}


def placeholder_for(y, valid, kind, draw=None):
    """A finite placeholder value of the requested kind that collides with no valid value."""
    vals = {y[i] for i in range(len(y)) if valid[i]}
    lo, hi = (min(vals), max(vals)) if vals else (0, 0)
    if kind == "below":
        return lo - 1 - (0 if draw is None else draw(st.integers(0, 20000)))
    if kind == "above":
        return hi + 1 + (0 if draw is None else draw(st.integers(0, 20000)))
    if kind == "zero":
        if 0 not in vals:
            return 0
        kind = "inside"
    # inside the data range, not colliding
    for c in range(lo, hi + 1):
        if c not in vals:
            return c
    return hi + 1


PLACEHOLDER_KINDS = ["below", "above", "inside", "zero"]


@st.composite
def srange(draw, min_count=3, max_count=40, lo=-6.0, hi=8.0):
    """Uniform ascending grid of log10 lambda: {"start","step","count"} with all entries in [lo, hi]."""
    if draw(st.integers(0, 9)) == 0:
        return {"start": -2.0, "step": 1.0, "count": 4}
    step = draw(st.one_of(st.sampled_from([0.1, 0.2, 0.25, 0.5, 1.0]), st.floats(0.05, 1.5)))
    count = draw(st.one_of(st.integers(min_count, min_count + 3), st.integers(min_count, max_count)))
    count = max(min_count, min(count, int((hi - lo) / step)))
    start = draw(st.floats(lo, hi - step * (count - 1)))
    start = round(start, 3)
    if start + step * (count - 1) > hi:
        start = hi - step * (count - 1)
    return {"start": float(start), "step": float(step), "count": int(count)}


def srange_array(sr):
    import numpy as np

    a = sr["start"] + sr["step"] * np.arange(sr["count"], dtype="float64")
    if sr.get("perm") is not None:
        a = a[np.array(sr["perm"], dtype=int)]  # the same candidates in another order (descending, shuffled)
    return a


# p = 0.5 is the one value at which "asymmetric" and "symmetric" could be confused (weights 0.5, not 1): extra mass there
pvals = st.one_of(st.sampled_from([0.5, 0.5, 0.5, 0.1, 0.9, 0.01, 0.99, 0.95, 0.05]), st.floats(0.01, 0.99), st.just(0.5))


def loglam(lo, hi):
    return st.one_of(st.floats(lo, hi), st.sampled_from([float(lo), float(hi)]), st.floats(lo, lo + 1), st.floats(hi - 1, hi))


# integer series whose lag-1 (mean-filled Pearson) correlation is exactly 1/2 in exact arithmetic (4 A^2 == Vx Vy) and whose
# float64 evaluation is exact as well; a*x+b (a > 0) keeps that. Used to sit exactly on the 0.5 grid-selection threshold.
EXACT_HALF_TEMPLATES = [[-3, 0, -1, 2, 2, 2], [-3, 0, 0, 0, 3, 2], [2, 3, 0, 0, 0, -3], [-2, -2, -2, 1, 0, 3], [-3, -3, -3, 0, -1, 2], [-2, 1, 0, 3, 3, 3]]


@st.composite
def exact_half_series(draw):
    t = draw(st.sampled_from(EXACT_HALF_TEMPLATES))
    a = draw(st.sampled_from([1, 2, 10, 100, 500]))
    b = draw(st.integers(-2000, 2000))
    return [a * v + b for v in t]
