"""Reference models. Nothing in this file imports hdc.algo."""
from __future__ import annotations

import math
from fractions import Fraction as F

import numpy as np
from scipy.linalg import solve_banded, solveh_banded

U = 2.0 ** -53


# =============================================================================================
# Whittaker: (W + lam D'D) z = W y
# =============================================================================================
def penta_coeffs(n):
    """Diagonals of D'D for second differences (n >= 3)."""
    d0 = np.full(n, 6.0)
    d0[[0, -1]] = 1.0
    d0[[1, -2]] = 5.0
    if n == 3:
        d0 = np.array([1.0, 4.0, 1.0])
    d1 = np.full(n - 1, -4.0)
    d1[[0, -1]] = -2.0
    d2 = np.ones(n - 2)
    return d0, d1, d2


def dense_matrix(n, lam, w):
    D = np.diff(np.eye(n), 2, axis=0)
    return np.diag(np.asarray(w, dtype=float)) + lam * D.T @ D


def banded_solve(y, lam, w):
    """LAPACK dpbsv (Cholesky, banded). y at zero-weight cells is ignored."""
    y = np.asarray(y, dtype=float)
    w = np.asarray(w, dtype=float)
    n = y.size
    d0, d1, d2 = penta_coeffs(n)
    ab = np.zeros((3, n))
    ab[2] = w + lam * d0
    ab[1, 1:] = lam * d1
    ab[0, 2:] = lam * d2
    rhs = w * np.where(w > 0, y, 0.0)
    return solveh_banded(ab, rhs, check_finite=False)


def lu_solve(y, lam, w):
    """LAPACK dgbsv (LU with pivoting, banded): a second, differently-rounded opinion."""
    y = np.asarray(y, dtype=float)
    w = np.asarray(w, dtype=float)
    n = y.size
    d0, d1, d2 = penta_coeffs(n)
    ab = np.zeros((5, n))
    ab[2] = w + lam * d0
    ab[1, 1:] = lam * d1
    ab[3, :-1] = lam * d1
    ab[0, 2:] = lam * d2
    ab[4, :-2] = lam * d2
    rhs = w * np.where(w > 0, y, 0.0)
    return solve_banded((2, 2), ab, rhs, check_finite=False)


def exact_solve(y, lam, w):
    """Gaussian elimination in Fractions on the normal equations built from the definition of D."""
    n = len(y)
    A = [[F(0)] * n for _ in range(n)]
    for i in range(n):
        A[i][i] += w[i]
    for i in range(n - 2):
        d = [(i, 1), (i + 1, -2), (i + 2, 1)]
        for a, ca in d:
            for b, cb in d:
                A[a][b] += lam * ca * cb
    b = [w[i] * y[i] for i in range(n)]
    for i in range(n):
        p = A[i][i]
        if p == 0:
            raise ZeroDivisionError("singular system")
        for j in range(i + 1, min(n, i + 3)):
            f = A[j][i] / p
            if f:
                for k in range(i, min(n, i + 3)):
                    A[j][k] -= f * A[i][k]
                b[j] -= f * b[i]
    z = [F(0)] * n
    for i in range(n - 1, -1, -1):
        s = b[i]
        for k in range(i + 1, min(n, i + 3)):
            s -= A[i][k] * z[k]
        z[i] = s / A[i][i]
    return z


def cond2(n, lam, w):
    return float(np.linalg.cond(dense_matrix(n, lam, w)))


def cond_estimate(n, lam, w):
    """Cheap upper-ish estimate of kappa_2 for larger n: ||A||_inf * ||A^-1||_inf via banded solves on e_i is
    too slow; use the dense matrix for n <= 400 (a few ms)."""
    return cond2(n, lam, w)


def tie_tau(zref, kappa):
    return 1e-6 + 64.0 * kappa * U * max(1.0, float(np.max(np.abs(zref))))


def rounded_matches(out, zref, tau):
    """Tie rule of DESIGN 2.5. Returns (ok, n_tie_cells_used, first_bad_index)."""
    out = np.asarray(out, dtype=np.int64)
    r = np.rint(zref)
    d = out - r.astype(np.int64)
    if not d.any():
        return True, 0, -1
    frac = np.abs(zref - np.floor(zref) - 0.5)
    bad = (np.abs(d) > 1) | ((d != 0) & (frac > tau))
    # a unit difference at a tie must be toward the other neighbour of the half
    # close to a half, rint picks one neighbour; the admissible alternative is the other neighbour
    alt = np.where(r == np.floor(zref), np.ceil(zref), np.floor(zref))
    bad |= (d != 0) & (out != alt.astype(np.int64))
    if bad.any():
        return False, 0, int(np.nonzero(bad)[0][0])
    return True, int((d != 0).sum()), -1


def irls(y, valid, lam, p, z0=None, max_pass=10, solver=banded_solve, base_w=None):
    """Asymmetric least squares exactly as the property describes it.

    Returns (z_result, passes, margin) where margin is the smallest |y - z| met at a weighted cell in
    any pass where the envelope decision was taken (decision fragility).
    """
    y = np.asarray(y, dtype=float)
    w = np.asarray(valid, dtype=float) if base_w is None else np.asarray(base_w, dtype=float)
    act = w > 0
    z = np.zeros(y.size) if z0 is None else np.array(z0, dtype=float)
    margin = np.inf
    znew = z
    k = 0
    for k in range(1, max_pass + 1):
        if act.any() and (k > 1 or z0 is not None):
            # pass 1 from the exact zero curve takes its decisions on exact numbers: not fragile
            margin = min(margin, float(np.min(np.abs(y[act] - z[act]))))
        wa = np.where(y > z, p, 1 - p)
        ww = w * wa
        znew = solver(np.where(act, y, 0.0), lam, ww)
        if np.sum(np.abs(znew - z)) == 0.0:
            break
        z = znew
    return znew, k, margin


def vcurve(y, valid, llas, p=None, solver=banded_solve):
    """V-curve of the anchors. Returns dict(v, mids, fits, pens, finite, margin)."""
    y = np.asarray(y, dtype=float)
    w = np.asarray(valid, dtype=float)
    yy = np.where(w > 0, y, 0.0)
    n = y.size
    fits, pens = [], []
    z = np.zeros(n)
    margin = np.inf
    with np.errstate(divide="ignore", invalid="ignore"):
        for ll in llas:
            lam = 10.0 ** ll
            if p is None:
                z = solver(yy, lam, w)
            else:
                z, _, mg = irls(yy, w > 0, lam, p, z0=z, solver=solver)
                margin = min(margin, mg)
            fits.append(np.log(np.sum((w * (yy - z)) ** 2)))
            pens.append(np.log(np.sum(np.diff(z, 2) ** 2)))
        fits = np.array(fits)
        pens = np.array(pens)
        step = llas[1] - llas[0]
        v = np.hypot(np.diff(fits), np.diff(pens)) / (math.log(10) * step)
    mids = (np.asarray(llas)[:-1] + np.asarray(llas)[1:]) / 2
    return {"v": v, "mids": mids, "fits": fits, "pens": pens, "finite": bool(np.isfinite(v).all()), "margin": margin}


def gcv_eigs(m):
    e = -2 + 2 * np.cos(np.arange(m) * np.pi / m)
    e[0] = 1e-15
    return e


def gcv_scores(y, wt, llas_or_lams, solver=banded_solve, lams=False):
    """GCV score per candidate for weight vector wt (validity x robust weights)."""
    y = np.asarray(y, dtype=float)
    wt = np.asarray(wt, dtype=float)
    yy = np.where(wt > 0, y, 0.0)
    e = gcv_eigs(y.size)
    n = wt.sum()
    out, zs = [], []
    for q in llas_or_lams:
        s = q if lams else 10.0 ** q
        z = solver(yy, s, wt)
        trH = (wt / (wt + s * e ** 2)).sum()
        out.append(np.sum(wt * (yy - z) ** 2) / (n * (1 - trH / n) ** 2))
        zs.append(z)
    return np.array(out), zs


def robust_gcv(y, valid, llas, p=None, solver=banded_solve):
    """Single-outcome view of robust_gcv_candidates (degenerate when the algorithm meets a problematic reweighting)."""
    c = robust_gcv_candidates(y, valid, llas, p, solver)
    if len(c) != 1 or c[0]["problem_passes"]:
        return {"z": np.zeros(len(y)), "lopt": float("nan"), "margin": 0.0, "degenerate": True, "weights": np.zeros(len(y))}
    r = dict(c[0])
    r["degenerate"] = False
    return r


def robust_gcv_candidates(y, valid, llas, p=None, solver=banded_solve, max_candidates=64):
    """All outcomes of the robust GCV algorithm that the property admits.

    The algorithm: 4 passes; passes 1-2 sweep the grid, 3-4 re-evaluate at the pass-2 lambda; the running best score and
    its curve persist across passes; after each pass bisquare weights are derived from the residuals of the VALID cells that
    still carry weight (scale 1.4826 MAD sqrt(1-h), cut-off 4.685, positive residuals keep weight 1).
    A reweighting is *problematic* when the MAD is 0 or when it would leave fewer than two weighted valid cells (the next
    solve would be singular). The property does not say what an implementation falls back to then, so both obvious policies
    are followed: keep the previous weights, or reset them to 1. Every leaf is an admissible result.
    Returns a list of dicts(z, lopt, weights, margin, problem_passes)."""
    y = np.asarray(y, dtype=float)
    valid = np.asarray(valid, dtype=bool)
    m = y.size
    w = valid.astype(float)
    n = w.sum()
    yy = np.where(valid, y, 0.0)
    e = gcv_eigs(m)
    out = []

    def rec(it, rw, best, ybest, hist, margin, problems):
        if len(out) >= max_candidates:
            return
        if it == 4:
            lopt = hist[1][1]
            fw = w * rw
            try:
                if p is None:
                    z = solver(yy, lopt, fw)
                    mg = np.inf
                else:
                    z, _, mg = irls(yy, valid, lopt, p, solver=solver, base_w=fw)
            except (np.linalg.LinAlgError, ValueError):
                return
            out.append({"z": z, "lopt": lopt, "weights": fw, "margin": min(margin, mg), "problem_passes": problems,
                        "best_score": min(h[0] for h in hist)})
            return
        grid = 10.0 ** np.asarray(llas) if it <= 1 else np.array([hist[1][1]])
        wt = w * rw
        try:
            for s in grid:
                z = solver(yy, s, wt)
                trH = (wt / (wt + s * e ** 2)).sum()
                score = np.sum(wt * (yy - z) ** 2) / (wt.sum() * (1 - trH / wt.sum()) ** 2)
                if score < best[0]:
                    if np.isfinite(best[0]):
                        margin = min(margin, abs(best[0] - score) / max(abs(score), 1e-300))
                    best = (score, s)
                    ybest = z
                elif np.isfinite(score) and score != best[0]:
                    margin = min(margin, abs(score - best[0]) / max(abs(best[0]), 1e-300))
        except (np.linalg.LinAlgError, ValueError):
            return
        if ybest is None:
            return
        s = best[1]
        trH = (wt / (wt + s * e ** 2)).sum()
        r = np.where(valid, yy - ybest, 0.0)
        sel = valid & (rw != 0)
        mad = np.median(np.abs(r[sel] - np.median(r[sel]))) if sel.any() else 0.0
        newrw = None
        scale = max(1.0, float(np.max(np.abs(yy[valid])))) if valid.any() else 1.0
        if 0 < mad <= 1e-6 * scale:
            # a MAD at rounding-noise level: whether an implementation treats it as zero is not the property's business,
            # and weights derived from it are decided by noise -> the case is fragile (counted, not judged)
            margin = 0.0
            mad = 0.0
        if mad > 0 and 1 - trH / n > 0:
            u = r / (1.4826 * mad * np.sqrt(1 - trH / n))
            margin = min(margin, float(np.min(np.abs(np.abs(u[valid] / 4.685) - 1))))
            nz = r[valid]
            if (nz != 0).any():
                margin = min(margin, float(np.min(np.abs(nz[nz != 0]))))
            newrw = (1 - (u / 4.685) ** 2) ** 2
            newrw[np.abs(u / 4.685) > 1] = 0
            newrw[r > 0] = 1
            if ((w * newrw) > 0).sum() < 2:
                newrw = None
        if newrw is not None:
            rec(it + 1, newrw, best, ybest, hist + [best], margin, problems)
        else:
            rec(it + 1, rw, best, ybest, hist + [best], margin, problems + [it])
            if not np.array_equal(rw, np.ones(m)):
                rec(it + 1, np.ones(m), best, ybest, hist + [best], margin, problems + [it])

    rec(0, np.ones(m), (np.inf, 0.0), None, [], np.inf, [])
    return out


def robust_lambda_candidates(y, valid, llas):
    """Grid indices that (nearly) minimise the criterion the robust variants select lambda with: the smaller of the
    first-pass (unit weights) and second-pass (bisquare weights from pass 1) GCV scores. -> (set | None, status)."""
    y = np.asarray(y, dtype=float)
    valid = np.asarray(valid, dtype=bool)
    w = valid.astype(float)
    n = w.sum()
    e = gcv_eigs(y.size)
    out = []
    for solver in (banded_solve, lu_solve):
        try:
            with np.errstate(all="ignore"):
                s1, zs = gcv_scores(y, w, llas, solver=solver)
                if not np.isfinite(s1).all():
                    return None, "nonfinite_gcv"
                k1 = int(np.argmin(s1))
                lam = 10.0 ** llas[k1]
                r = np.where(valid, y - zs[k1], 0.0)
                mad = np.median(np.abs(r[valid] - np.median(r[valid])))
                rw = np.ones(y.size)
                if mad > 0:
                    trH = (w / (w + lam * e ** 2)).sum()
                    u = r / (1.4826 * mad * np.sqrt(1 - trH / n))
                    rw = (1 - (u / 4.685) ** 2) ** 2
                    rw[np.abs(u / 4.685) > 1] = 0
                    rw[r > 0] = 1
                if ((w * rw) > 0).sum() < 2:
                    rw = np.ones(y.size)
                s2, _ = gcv_scores(y, w * rw, llas, solver=solver)
                if not np.isfinite(s2).all():
                    return None, "nonfinite_gcv"
        except (np.linalg.LinAlgError, ValueError):
            return None, "singular_robust_weights"
        out.append((np.minimum(s1, s2), rw > 0))
    (ca, pa), (cb, pb) = out
    if not np.array_equal(pa, pb):
        return None, "fragile_reference_solvers_disagree"
    tol = 1e-7 * abs(float(ca.min())) + 50 * float(np.max(np.abs(ca - cb))) + 1e-300
    if tol > 0.05 * float(ca.max() - ca.min()):
        return None, "unresolvable_gcv"
    return {int(i) for i in np.nonzero(ca <= ca.min() + tol)[0]}, None


# =============================================================================================
# simple statistics models
# =============================================================================================
def autocorr(x, valid):
    """Lag-1 Pearson with mean-filled gaps; 0 when no valid pair or a zero variance."""
    x = np.asarray(x, dtype=np.float64)
    valid = np.asarray(valid, dtype=bool)
    X, Y = x[:-1].copy(), x[1:].copy()
    vx, vy = valid[:-1], valid[1:]
    if not (vx & vy).any():
        return 0.0
    X[~vx] = X[vx].mean()
    Y[~vy] = Y[vy].mean()
    dx, dy = X - X.mean(), Y - Y.mean()
    sxx, syy = float(np.sum(dx * dx)), float(np.sum(dy * dy))
    if sxx <= 0 or syy <= 0:
        return 0.0
    return float(np.sum(dx * dy) / math.sqrt(sxx * syy))


def mk(x):
    """Mann-Kendall from the definition. x: sequence of numbers (exact comparisons)."""
    from scipy.special import ndtr

    n = len(x)
    s = 0
    for i in range(n - 1):
        xi = x[i]
        for j in range(i + 1, n):
            s += (x[j] > xi) - (x[j] < xi)
    tau = s / (n * (n - 1) / 2)
    counts = {}
    for v in x:
        counts[v] = counts.get(v, 0) + 1
    var = (n * (n - 1) * (2 * n + 5) - sum(t * (t - 1) * (2 * t + 5) for t in counts.values())) / 18
    if s > 0:
        z = (s - 1) / math.sqrt(var) if var > 0 else math.inf
    elif s < 0:
        z = (s + 1) / math.sqrt(var) if var > 0 else -math.inf
    else:
        z = 0.0
    p = 2 * float(ndtr(-abs(z))) if math.isfinite(z) else 0.0
    slopes = sorted((float(x[j]) - float(x[i])) / (j - i) for i in range(n - 1) for j in range(i + 1, n))
    k = len(slopes)
    slope = (slopes[k // 2] if k % 2 else (slopes[k // 2 - 1] + slopes[k // 2]) / 2) if k else float("nan")
    trend = 0
    if p < 0.05:
        trend = 1 if z > 0 else (-1 if z < 0 else 0)
    return {"s": s, "tau": tau, "var": var, "z": z, "p": p, "slope": slope, "trend": trend}


# =============================================================================================
# SPI: gamma MLE / zero mixture / normal quantile (SciPy, independent root bracket)
# =============================================================================================
def gamma_s(pos):
    """s = log(mean) - mean(log) over positive values (float64, compensated sums)."""
    pos = [float(v) for v in pos]
    n = len(pos)
    return math.log(math.fsum(pos) / n) - math.fsum(math.log(v) for v in pos) / n


def gamma_alpha_rel_tol(pos, s):
    """Relative accuracy to which any float64 implementation can know alpha: alpha ~ 1/(2s) for small s, and
    s = log(mean) - mean(log) is a difference of O(1) numbers whose naive n-term accumulation carries an error of about
    n*u*(|log mean| + mean|log x|)."""
    pos = np.asarray(pos, dtype=np.float64)
    n = pos.size
    mag = abs(math.log(float(pos.mean()))) + float(np.mean(np.abs(np.log(pos)))) + 1.0
    return 1e-9 + 8.0 * n * U * mag / s


def gamma_alpha(s):
    """Root of log(a) - digamma(a) = s on a bracket independent of Thom's estimate."""
    from scipy.optimize import brentq
    from scipy.special import digamma

    f = lambda a: math.log(a) - float(digamma(a)) - s  # noqa: E731
    lo, hi = 1e-8, 1e15
    if f(lo) <= 0 or f(hi) >= 0:
        return None
    return float(brentq(f, lo, hi, xtol=1e-300, rtol=4 * np.finfo(float).eps, maxiter=500))


def spi_reference(x, valid_mask, window, alpha_beta=None):
    """x: float64 values; valid_mask: not nodata. Returns dict(index (unrounded, nan where nodata/negative),
    alpha, beta, p0, fittable, reason)."""
    from scipy.special import gammainc, ndtri

    x = np.asarray(x, dtype=np.float64)
    ok = np.asarray(valid_mask, dtype=bool)
    usable = ok & (x >= 0)
    n_valid = int(usable.sum())
    if n_valid == 0:
        return {"fittable": False, "reason": "no valid cells"}
    p0 = int((usable & (x == 0)).sum()) / n_valid
    if p0 > 0.9:
        return {"fittable": False, "reason": "more than 90% zeros", "p0": p0}
    c0, c1 = window
    sel = np.zeros(x.size, dtype=bool)
    sel[c0:c1] = True
    pos = x[sel & ok & (x > 0)]
    if pos.size == 0:
        return {"fittable": False, "reason": "no positive value in the calibration window", "p0": p0}
    if alpha_beta is None:
        if np.unique(pos).size < 2:
            return {"fittable": None, "reason": "fewer than two distinct positives (outside C07)", "p0": p0}
        s = gamma_s(pos)
        if not s > 0:
            return {"fittable": None, "reason": "s not positive in float64", "p0": p0}
        if s < 256 * U * max(1.0, float(np.max(np.abs(np.log(pos))))):
            # positives that differ in their last digits only: s = log(mean) - mean(log) is a difference of nearly equal numbers and
            # its sign / magnitude is rounding noise, so whether a fit exists at all is not decided by the definition in float64
            return {"fittable": None, "reason": "s within rounding noise of zero", "p0": p0}
        alpha = gamma_alpha(s)
        if alpha is None:
            return {"fittable": None, "reason": "no root in bracket", "p0": p0}
        beta = float(math.fsum(pos.tolist()) / pos.size / alpha)
    else:
        alpha, beta = alpha_beta
        s = None
    atol = gamma_alpha_rel_tol(pos, s) if s else 1e-9
    idx = np.full(x.size, np.nan)
    with np.errstate(all="ignore"):
        prob = p0 + (1 - p0) * gammainc(alpha, x[usable] / beta)
        idx[usable] = 1000.0 * ndtri(prob)
    return {"fittable": True, "index": idx, "alpha": alpha, "beta": beta, "p0": p0, "s": s, "usable": usable, "alpha_rel_tol": atol}


def spi_tie_width(idx, alpha, alpha_rel_tol=None):
    """Half-width around x.5 inside which either rounding is accepted (per cell)."""
    from scipy.stats import norm

    z = np.abs(idx) / 1000.0
    with np.errstate(all="ignore"):
        phi = norm.pdf(z)
        amp = 1000.0 * 200 * U / np.maximum(phi, 1e-300)
    rel = (1e-9 + 8e-15 * alpha) if alpha_rel_tol is None else alpha_rel_tol
    return 1e-3 + amp + np.abs(idx) * rel
