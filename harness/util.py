"""Small helpers shared by property modules."""
from __future__ import annotations

import warnings

import numpy as np

from .core import Violation

warnings.simplefilter("ignore")


def call(what, fn, *a, **k):
    """Call code under test where the property promises a result: an exception is a violation."""
    try:
        return fn(*a, **k)
    except Violation:
        raise
    except Exception as e:  # noqa: BLE001 - the property says "returns", so anything raised breaks it
        raise Violation("%s raised %s: %s" % (what, type(e).__name__, str(e)[:200]),
                        signature="%s raised %s" % (what, type(e).__name__))


def expect_raises(what, exc_types, fn, *a, **k):
    """The property says this call is refused with one of exc_types."""
    try:
        r = fn(*a, **k)
    except exc_types:
        return
    except Exception as e:  # noqa: BLE001
        raise Violation("%s raised %s instead of %s: %s" % (
            what, type(e).__name__, "/".join(t.__name__ for t in exc_types), str(e)[:200]),
            signature="%s wrong exception" % what)
    raise Violation("%s did not raise (returned %s)" % (what, str(r)[:200]), signature="%s did not raise" % what)


def req(cond, msg, signature=None):
    if not cond:
        raise Violation(msg, signature)


def fmt(a, n=12):
    a = np.asarray(a).ravel()
    s = ", ".join(str(v) for v in a[:n].tolist())
    return "[%s%s]" % (s, ", ...(%d)" % a.size if a.size > n else "")
