"""Runner, recorder, evidence writer, replay and known-findings handling.

A property module (props/cXX.py) exposes

    PID    = "C18"
    LEVEL  = "exploration"            # manifest / evidence level
    RULE   = "..."                     # how cases are generated, what is non-trivial
    ASSUME = [...]                     # assumptions / trusted base
    SUBS   = {name: fn}                # replayable case checkers: fn(case) -> None | raise Violation
    def run(ctx): ...                  # drives the search, through ctx.given / ctx.enumerate / ctx.case

Exit codes: 0 held (maybe KNOWN-FINDING lines), 1 violation (VIOLATION line), 2 harness error.
"""
from __future__ import annotations

import hashlib
import json
import math
import os
import sys
import time
import traceback

ROOT = os.path.dirname(os.path.dirname(os.path.abspath(__file__)))


class Violation(Exception):
    """The property is broken by this case (message says how)."""

    def __init__(self, msg, signature=None):
        super().__init__(msg)
        self.signature = signature or msg.split(":")[0]


class HarnessError(Exception):
    """The machinery is broken (never reported as a violation)."""


def _jsonable(o):
    import numpy as np

    if isinstance(o, dict):
        return {str(k): _jsonable(v) for k, v in o.items()}
    if isinstance(o, (list, tuple)):
        return [_jsonable(v) for v in o]
    if isinstance(o, np.ndarray):
        return _jsonable(o.tolist())
    if isinstance(o, (np.integer,)):
        return int(o)
    if isinstance(o, (np.floating,)):
        o = float(o)
    if isinstance(o, (np.bool_,)):
        return bool(o)
    if isinstance(o, float):
        if math.isnan(o):
            return "NaN"
        if math.isinf(o):
            return "Infinity" if o > 0 else "-Infinity"
        return o
    if isinstance(o, (int, str, bool)) or o is None:
        return o
    return repr(o)


def unjson(o):
    """Inverse of the float special-casing of _jsonable (used by replay)."""
    if isinstance(o, dict):
        return {k: unjson(v) for k, v in o.items()}
    if isinstance(o, list):
        return [unjson(v) for v in o]
    if o == "NaN":
        return float("nan")
    if o == "Infinity":
        return float("inf")
    if o == "-Infinity":
        return float("-inf")
    return o


def canon(case):
    return json.dumps(_jsonable(case), sort_keys=True, separators=(",", ":"))


def _short(o, maxlen=24):
    """Truncate long lists for evidence samples."""
    if isinstance(o, dict):
        return {k: _short(v, maxlen) for k, v in o.items()}
    if isinstance(o, list):
        if len(o) > maxlen:
            return [_short(v, maxlen) for v in o[: maxlen - 4]] + ["...(%d more)" % (len(o) - maxlen + 4)]
        return [_short(v, maxlen) for v in o]
    return o


class Recorder:
    def __init__(self):
        self.evaluations = 0
        self.nontrivial = set()
        self.classes = {}
        self.discards = {}
        self.subs = {}
        self.samples = []
        self._sample_budget = {}
        self.extra = {}
        self.exhaustive_parts = []
        self.ties = 0

    def case(self, sub, case=None, nontrivial=False, cls=None, count=1, key=None):
        """Count one executed case (or `count` bulk cases sharing one description)."""
        self.evaluations += count
        s = self.subs.setdefault(sub, {"evaluations": 0, "nontrivial": 0})
        s["evaluations"] += count
        if cls is not None:
            for c in cls if isinstance(cls, (list, tuple)) else [cls]:
                k = "%s/%s" % (sub, c)
                self.classes[k] = self.classes.get(k, 0) + count
        if nontrivial:
            if key is None:
                key = hashlib.sha1((sub + canon(case)).encode()).digest()[:10]
            if key not in self.nontrivial:
                self.nontrivial.add(key)
                s["nontrivial"] += 1
        if case is not None:
            b = self._sample_budget.get(sub, 0)
            # first two, then sparse later ones
            if b < 2 or (s["evaluations"] in (10, 100, 1000, 10000)):
                self._sample_budget[sub] = b + 1
                self.samples.append({"sub": sub, "class": cls, "nontrivial": bool(nontrivial),
                                     "case": _short(_jsonable(case))})

    def bulk_nontrivial(self, sub, keys):
        """Register many distinct non-trivial keys at once (enumerations)."""
        s = self.subs.setdefault(sub, {"evaluations": 0, "nontrivial": 0})
        before = len(self.nontrivial)
        self.nontrivial.update(keys)
        s["nontrivial"] += len(self.nontrivial) - before

    def discard(self, sub, reason, count=1):
        k = "%s/%s" % (sub, reason)
        self.discards[k] = self.discards.get(k, 0) + count


class Ctx:
    def __init__(self, mod, tier, seed):
        self.mod = mod
        self.pid = mod.PID
        self.tier = tier
        self.seed = seed
        self.rec = Recorder()
        self.violations = []  # (sub, msg, signature, replay_path)
        self.known_hits = []
        self.t0 = time.time()
        self.known = load_known(self.pid)

    # -- sizing ---------------------------------------------------------------------------
    def n(self, quick, thorough):
        return quick if self.tier == "quick" else thorough

    @property
    def quick(self):
        return self.tier == "quick"

    # -- reporting ------------------------------------------------------------------------
    def report(self, sub, case, exc):
        msg = str(exc)
        sig = getattr(exc, "signature", type(exc).__name__)
        for k in self.known:
            if k.get("status") == "open" and k.get("sub") in (None, sub) and k.get("match", "\0") in (sig + " " + msg):
                self.known_hits.append((k, sub, msg))
                print("KNOWN-FINDING: property=%s %s" % (self.pid, k.get("what", msg)), flush=True)
                return
        os.makedirs(os.path.join(ROOT, "replays"), exist_ok=True)
        h = hashlib.sha1(canon(case).encode()).hexdigest()[:10]
        path = os.path.join(ROOT, "replays", "%s-%s-%s.json" % (self.pid, sub, h))
        with open(path, "w") as f:
            json.dump({"property": self.pid, "sub": sub, "seed": self.seed, "tier": self.tier,
                       "message": msg, "signature": sig, "case": _jsonable(case)}, f, indent=1)
        self.violations.append((sub, msg, sig, path))
        print("VIOLATION property=%s replay=%s" % (self.pid, path), flush=True)
        print("  sub-check %s: %s" % (sub, msg[:600]), flush=True)

    # -- drivers --------------------------------------------------------------------------
    def run_case(self, sub, case):
        """Run one concrete case through SUBS[sub]; report a violation; return True if held."""
        fn = self.mod.SUBS[sub]
        inflight = os.environ.get("VERIF_INFLIGHT")
        if inflight:
            with open(inflight, "w") as f:
                json.dump({"property": self.pid, "sub": sub, "seed": self.seed, "tier": self.tier,
                           "message": "the interpreter died while running this case", "case": _jsonable(case)}, f)
        try:
            fn(case)
            return True
        except Violation as e:
            self.report(sub, case, e)
            return False

    def given(self, sub, strategy, max_examples, fn=None, shrink=None):
        """Hypothesis-driven search of SUBS[sub] over `strategy` (cases are JSON-able)."""
        import hypothesis
        from hypothesis import HealthCheck, Phase, given, settings

        fn = fn or self.mod.SUBS[sub]
        holder = {}
        phases = [Phase.explicit, Phase.generate]  # no Phase.target: its hill climber can spin for hours on cached simulations without running a test (seen in C01/C15 thorough)
        if shrink is None:
            shrink = True
        if shrink:
            phases.append(Phase.shrink)

        inflight = os.environ.get("VERIF_INFLIGHT")

        @hypothesis.seed(self.seed * 1000003 + _stable(sub))
        @settings(max_examples=max_examples, database=None, deadline=None, derandomize=False,
                  report_multiple_bugs=False, phases=phases, print_blob=False,
                  suppress_health_check=list(HealthCheck))
        @given(strategy)
        def test(case):
            if inflight:
                # journal the case in flight: if compiled code kills the interpreter, the wrapper turns this into the replay file
                with open(inflight, "w") as f:
                    json.dump({"property": self.pid, "sub": sub, "seed": self.seed, "tier": self.tier,
                               "message": "the interpreter died while running this case", "case": _jsonable(case)}, f)
            try:
                fn(case)
            except Violation as e:
                holder["case"], holder["exc"] = case, e
                raise

        try:
            test()
        except Violation as e:
            self.report(sub, holder.get("case"), holder.get("exc", e))
        except hypothesis.errors.Flaky as e:
            # The sub-checks are pure functions of the case, so a failure that does not repeat on the same case means the
            # code under test is not deterministic (uninitialised output, race): the observed violation is reported as such.
            if "exc" in holder:
                exc = holder["exc"]
                self.report(sub, holder.get("case"), Violation("non-deterministic (failed on one call, held on a repeat of the same case): %s" % exc,
                                                               getattr(exc, "signature", None)))
            else:
                raise HarnessError("hypothesis flaky failure in %s/%s: %r" % (self.pid, sub, e))
        except hypothesis.errors.HypothesisException as e:
            raise HarnessError("hypothesis failure in %s/%s: %r" % (self.pid, sub, e))

    def elapsed(self):
        return time.time() - self.t0


def _stable(s):
    return int(hashlib.sha1(s.encode()).hexdigest()[:6], 16)


def load_known(pid):
    p = os.path.join(ROOT, "known_findings.json")
    if not os.path.exists(p):
        return []
    with open(p) as f:
        data = json.load(f)
    return [k for k in data.get("findings", []) if k.get("property") == pid]


def write_evidence(ctx, status):
    rec = ctx.rec
    cov = {
        "evaluations": int(rec.evaluations),
        "distinct_nontrivial": len(rec.nontrivial),
        "rule": ctx.mod.RULE,
        "samples": rec.samples[:40],
        "subchecks": rec.subs,
        "classes": rec.classes,
        "discards": rec.discards,
        "rounding_tie_invocations": rec.ties,
        "exhaustive": bool(rec.exhaustive_parts) and getattr(ctx.mod, "EXHAUSTIVE_WHOLE", False),
        "exhaustive_parts": rec.exhaustive_parts,
        "known_findings_reproduced": len(ctx.known_hits),
        "status": status,
    }
    cov.update(rec.extra)
    ev = {
        "property_id": ctx.pid,
        "tier": ctx.tier,
        "seed": int(ctx.seed),
        "level": ctx.mod.LEVEL,
        "coverage": cov,
        "assumptions": list(getattr(ctx.mod, "ASSUME", [])),
        "wall_s": round(ctx.elapsed(), 2),
        "violations": len(ctx.violations),
    }
    # sensitivity / seeded-change runs against a scratch tree must not overwrite the evidence of /repo
    evdir = os.environ.get("VERIF_EVIDENCE_DIR") or os.path.join(ROOT, "evidence")
    os.makedirs(evdir, exist_ok=True)
    with open(os.path.join(evdir, "%s.json" % ctx.pid), "w") as f:
        json.dump(ev, f, indent=1, sort_keys=True)
        f.write("\n")


def check_repo_binding():
    """The code under test must come from the tree we were told to test."""
    want = os.path.realpath(os.environ.get("HDC_REPO", "/repo"))
    import hdc.algo

    got = os.path.realpath(hdc.algo.__file__)
    if not got.startswith(want + os.sep):
        raise HarnessError("hdc.algo imported from %s, expected under %s" % (got, want))


def main(argv=None):
    import argparse
    import importlib

    ap = argparse.ArgumentParser()
    ap.add_argument("pid")
    ap.add_argument("--tier", default=os.environ.get("VERIF_TIER", "quick"), choices=["quick", "thorough"])
    ap.add_argument("--replay")
    ap.add_argument("--seed", type=int, default=None)
    a = ap.parse_args(argv)
    seed = a.seed if a.seed is not None else int(os.environ.get("VERIF_SEED", "1") or 1)
    pid = a.pid.upper()
    try:
        check_repo_binding()
        mod = importlib.import_module("props.%s" % pid.lower())
        ctx = Ctx(mod, a.tier, seed)
        if a.replay:
            with open(a.replay) as f:
                r = json.load(f)
            ok = ctx.run_case(r["sub"], unjson(r["case"]))
            print("replay %s: %s" % (a.replay, "held" if ok else "VIOLATED"))
            return 0 if ok else 1
        # replay tier: committed shrunk inputs first
        rdir = os.path.join(ROOT, "regress", pid)
        nreg = 0
        if os.path.isdir(rdir):
            for fn in sorted(os.listdir(rdir)):
                if fn.endswith(".json"):
                    with open(os.path.join(rdir, fn)) as f:
                        r = json.load(f)
                    ctx.run_case(r["sub"], unjson(r["case"]))
                    nreg += 1
        ctx.rec.extra["regression_inputs_replayed"] = nreg
        mod.run(ctx)
        status = "violated" if ctx.violations else "held"
        write_evidence(ctx, status)
        print("%s %s tier=%s seed=%d evaluations=%d nontrivial=%d wall=%.1fs" % (
            pid, status, a.tier, seed, ctx.rec.evaluations, len(ctx.rec.nontrivial), ctx.elapsed()))
        return 1 if ctx.violations else 0
    except HarnessError as e:
        print("HARNESS-ERROR %s: %s" % (pid, e), file=sys.stderr)
        return 2
    except Exception:  # anything unexpected is a harness error, never a violation
        traceback.print_exc()
        print("HARNESS-ERROR %s: unexpected exception" % pid, file=sys.stderr)
        return 2
