"""Uniform access to the eight Whittaker smoother variants (nine configurations) and their reference curves."""
from __future__ import annotations

import numpy as np

from hdc.algo import ops
from . import refs
from .core import Violation
from .util import call

VARIANTS = ["gu", "pgu", "optv", "optvp", "optvplc", "wcv", "wcvp", "wcv_r", "wcvp_r"]
NEEDS_P = {"pgu", "optvp", "optvplc", "wcvp", "wcvp_r"}
NEEDS_SRANGE = {"optv", "optvp", "wcv", "wcvp", "wcv_r", "wcvp_r"}
NONFINITE_OK = {"gu", "pgu", "wcv", "wcvp", "wcv_r", "wcvp_r"}
GCV = {"wcv", "wcvp", "wcv_r", "wcvp_r"}
ROBUST = {"wcv_r", "wcvp_r"}
REVERSIBLE = {"gu", "pgu", "optv", "optvp", "optvplc"}

LC_GRID_HI = np.arange(-2, 1.2, 0.2, dtype="float64")   # lc > 0.5
LC_GRID_LO = np.arange(0, 3.2, 0.2, dtype="float64")    # lc <= 0.5 or NaN


def min_valid(variant):
    return 5 if variant in GCV else 2


def run_variant(variant, y, nodata, prm):
    """-> (out int16 array, lopt float or None). prm: dict(lam, p, llas (array), lc)."""
    y = np.asarray(y)
    nd = float(nodata)
    out = _run_variant(variant, y, nd, prm)
    return out


def _check_unmodified(what, a, keep):
    if not np.array_equal(a, keep, equal_nan=True):
        bad = int(np.nonzero(~((a == keep) | (np.isnan(a) & np.isnan(keep))))[0][0])
        raise Violation("%s modified its input series (cell %d: %r -> %r): a later evaluation of the same buffer sees different data" % (
            what, bad, float(keep[bad]), float(a[bad])), signature="%s modified input" % what)


def _run_variant(variant, y, nd, prm):
    """Every kernel is handed an array of exactly its signature dtype (so no hidden copy is made by the gufunc machinery)
    and that array must come back unchanged."""
    buf = np.array(y, dtype="int16" if variant == "optvplc" else "float64", copy=True)
    keep = buf.copy()
    if variant == "gu":
        o, l = call("ws2dgu", ops.ws2dgu, buf, float(prm["lam"]), nd), None
    elif variant == "pgu":
        o, l = call("ws2dpgu", ops.ws2dpgu, buf, float(prm["lam"]), nd, float(prm["p"])), None
    elif variant == "optv":
        o, l = call("ws2doptv", ops.ws2doptv, buf, nd, prm["llas"])
    elif variant == "optvp":
        o, l = call("ws2doptvp", ops.ws2doptvp, buf, nd, float(prm["p"]), prm["llas"])
    elif variant == "optvplc":
        o, l = call("ws2doptvplc", ops.ws2doptvplc, buf, nd, float(prm["p"]), float(prm["lc"]))
    elif variant in ("wcv", "wcv_r"):
        o, l = call("ws2dwcv", ops.ws2dwcv, buf, nd, prm["llas"], variant == "wcv_r")
    elif variant in ("wcvp", "wcvp_r"):
        o, l = call("ws2dwcvp", ops.ws2dwcvp, buf, nd, float(prm["p"]), prm["llas"], variant == "wcvp_r")
    else:
        raise ValueError(variant)
    _check_unmodified(variant, buf.astype("float64"), keep.astype("float64"))
    return o, (None if l is None else float(l))


def grid_for(variant, prm):
    if variant == "optvplc":
        lc = prm["lc"]
        return LC_GRID_HI if lc > 0.5 else LC_GRID_LO
    return prm.get("llas")


def reference_curve(variant, y, valid, lam, prm):
    """Reference (unrounded) curve of the non-robust variants at smoothing value lam.

    Returns (z, margin) - margin is the IRLS decision margin (inf for symmetric variants)."""
    if variant in ROBUST:
        raise ValueError("robust variants have their own model")
    yy = np.where(valid, y, 0.0).astype(float)
    w = np.asarray(valid, dtype=float)
    if variant in NEEDS_P:
        z, _, margin = refs.irls(yy, valid, lam, prm["p"])
        return z, margin
    return refs.banded_solve(yy, lam, w), np.inf


def kappa(n, lam, valid, p=None):
    w = np.asarray(valid, dtype=float)
    if p is not None:
        w = w * min(p, 1 - p)  # weakest weighting any pass can produce bounds the conditioning from above
    return refs.cond2(n, lam, w)


def compare_to_curve(what, out, z, tau, rec=None, cells=None):
    """Tie-rule comparison of an int16 output with a reference curve; raises Violation."""
    o = np.asarray(out)
    zz = np.asarray(z)
    if cells is not None:
        o, zz = o[cells], zz[cells]
    ok, nties, bad = refs.rounded_matches(o, zz, tau)
    if not ok:
        raise Violation("%s: output %d at cell %d, reference curve %.9f (tie width %.3g)" % (
            what, int(o[bad]), bad, float(zz[bad]), tau), signature=what.split(":")[0] + " differs from reference curve")
    if rec is not None:
        rec.ties += nties
    return nties


def whittaker_support(out, y, valid, lam, wmax=1.0):
    """Necessary conditions for `out` (int16) to be the rounding of the solution z of (W + lam D'D) z = W y with weights
    0 <= w_i <= wmax on valid cells and 0 on missing cells.

    Row i of the normal equations reads  w_i (y_i - z_i) = lam (D'D z)_i.  With out = z + e, |e| <= 1/2:
    |lam (D'D out)_i - lam (D'D z)_i| <= 8 lam  and  |(y_i - out_i) - (y_i - z_i)| <= 1/2.
    Returns (number of valid cells that can carry a positive weight, largest |(D'D out)_i| over missing cells that is
    inconsistent with weight 0, i.e. minus the 8-unit rounding allowance).
    """
    o = np.asarray(out, dtype=np.float64)
    n = o.size
    d2 = np.diff(o, 2)
    dtd = np.zeros(n)
    dtd[:-2] += d2
    dtd[1:-1] += -2 * d2
    dtd[2:] += d2
    g = lam * dtd
    eps = 8.0 * lam + 1e-6 * (1 + lam)
    v = np.asarray(valid, dtype=bool)
    d = np.asarray(y, dtype=np.float64) - o
    support = 0
    for i in np.nonzero(v)[0]:
        glo, ghi = g[i] - eps, g[i] + eps
        dlo, dhi = d[i] - 0.5 - 1e-6, d[i] + 0.5 + 1e-6
        ok = False
        # exists gg in [glo, ghi], dd in [dlo, dhi], w in (0, wmax] with gg = w * dd
        if dlo <= 0 <= dhi and glo <= 0 <= ghi:
            ok = True
        if not ok and dhi > 0 and ghi > 0 and glo <= wmax * dhi:
            ok = True
        if not ok and dlo < 0 and glo < 0 and ghi >= wmax * dlo:
            ok = True
        support += ok
    miss = np.abs(dtd[~v]).max() - 8.0 - 1e-6 if (~v).any() else -np.inf
    return support, miss


def unrounded_via_twin(variant, y, nodata, prm):
    """The curve before rounding, obtained by running the kernel's own source in the interpreter (its np.round call is recorded).
    Used only to adjudicate unit differences between two runs of the compiled kernel (is the curve on a rounding tie there?)."""
    from . import twins

    kern = {"gu": ops.ws2dgu, "pgu": ops.ws2dpgu, "optv": ops.ws2doptv, "optvp": ops.ws2doptvp, "optvplc": ops.ws2doptvplc,
            "wcv": ops.ws2dwcv, "wcv_r": ops.ws2dwcv, "wcvp": ops.ws2dwcvp, "wcvp_r": ops.ws2dwcvp}[variant]
    t = twins.twin(kern)
    yy = np.array(y, dtype="float64")
    n = yy.size
    out = np.zeros(n, dtype="int16")
    lo = np.zeros(1)
    nd = float(nodata)
    twins.PROXY.rounded.clear()
    with np.errstate(all="ignore"):
        if variant == "gu":
            t(yy, float(prm["lam"]), nd, out)
        elif variant == "pgu":
            t(yy, float(prm["lam"]), nd, float(prm["p"]), out)
        elif variant == "optv":
            t(yy, nd, prm["llas"], out, lo)
        elif variant == "optvp":
            t(yy, nd, float(prm["p"]), prm["llas"], out, lo)
        elif variant == "optvplc":
            t(yy.astype("int64"), nd, float(prm["p"]), float(prm["lc"]), out, lo)
        elif variant in ("wcv", "wcv_r"):
            t(yy, nd, prm["llas"], variant == "wcv_r", out, lo)
        else:
            t(yy, nd, float(prm["p"]), prm["llas"], variant == "wcvp_r", out, lo)
    if not twins.PROXY.rounded:
        return None
    return np.asarray(twins.PROXY.rounded[-1], dtype=np.float64)
