"""Interpreted twins: the same code object as a compiled kernel, run by CPython with NumPy semantics."""
from __future__ import annotations

import types

import numba
import numpy as np
from numba.core import types as nbt
from numba.core.registry import CPUDispatcher

NBMAP = {nbt.float64: np.float64, nbt.float32: np.float32, nbt.int16: np.int16, nbt.int32: np.int32,
         nbt.int64: np.int64, nbt.uint8: np.uint8, nbt.boolean: np.bool_, nbt.int8: np.int8,
         nbt.uint32: np.uint32, nbt.uint16: np.uint16, nbt.uint64: np.uint64}


class NpProxy:
    """numpy, except that round(a, d, out) stores with a C cast (as compiled code does) and records a."""

    def __init__(self):
        self.rounded = []

    def __getattr__(self, k):
        return getattr(np, k)

    def round(self, a, decimals=0, out=None):
        self.rounded.append(np.array(a, copy=True))
        r = np.round(a, decimals)
        if out is None:
            return r
        with np.errstate(invalid="ignore", over="ignore"):
            out[...] = r.astype(out.dtype) if out.dtype != r.dtype else r
        return out


class NumbaShim:
    prange = staticmethod(range)

    def __getattr__(self, k):
        return getattr(numba, k)


PROXY = NpProxy()
_twins = {}


def source_of(obj):
    if isinstance(obj, CPUDispatcher):
        return obj.py_func
    if hasattr(obj, "__wrapped__") and isinstance(obj.__wrapped__, types.FunctionType):
        return obj.__wrapped__
    return None


def is_kernel(v):
    return isinstance(v, CPUDispatcher) or (
        callable(v) and hasattr(v, "__wrapped__") and getattr(v, "__module__", "").startswith("hdc.algo.ops"))


def twin(obj, overrides=None):
    """Interpreted twin of a dispatcher / lazycompile wrapper (recursively twins callees)."""
    src = source_of(obj)
    if src is None:
        return obj
    key = (id(src.__code__), tuple(sorted((overrides or {}).keys())))
    if key in _twins:
        return _twins[key]
    g = {}
    f = types.FunctionType(src.__code__, g, src.__name__, src.__defaults__, src.__closure__)
    f.__kwdefaults__ = src.__kwdefaults__
    _twins[key] = f
    for k, v in src.__globals__.items():
        if overrides and k in overrides:
            g[k] = overrides[k]
        elif is_kernel(v):
            g[k] = twin(v, overrides)
        elif v is np:
            g[k] = PROXY
        elif v is numba:
            g[k] = NumbaShim()
        elif isinstance(v, nbt.Type) and v in NBMAP:
            g[k] = NBMAP[v]
        else:
            g[k] = v
    return f


def discover_programs():
    """Every CPUDispatcher and lazycompile wrapper defined in hdc.algo.ops.* -> {qualified name: object}."""
    import importlib
    import pkgutil

    import hdc.algo.ops as opkg

    progs = {}
    for mi in pkgutil.iter_modules(opkg.__path__):
        if mi.name == "whit":  # unimported legacy copy, see DESIGN section 6
            continue
        mod = importlib.import_module("hdc.algo.ops." + mi.name)
        for name, v in vars(mod).items():
            if not is_kernel(v):
                continue
            src = source_of(v)
            if src is None or src.__module__ != mod.__name__:
                continue
            progs["%s.%s" % (mi.name, name)] = v
    return progs


# the 35 entry points the property counts (C13 / C14), by module and name
EXPECTED = ['autocorr.autocorr', 'autocorr.autocorr_1d', 'autocorr.autocorr_1d_float', 'autocorr.autocorr_1d_int', 'autocorr.autocorr_tyx', 'lroo.lroo', 'stats._mann_kendall_trend_gu', 'stats._mann_kendall_trend_gu_nd', 'stats.brentq', 'stats.gammafit', 'stats.gammastd', 'stats.gammastd_grp', 'stats.gammastd_yxt', 'stats.mann_kendall_trend_1d', 'stats.mann_kendall_trend_yxt', 'stats.mean_grp', 'stats.mk_p_value', 'stats.mk_score', 'stats.mk_sens_slope', 'stats.mk_variance_s', 'stats.mk_z_score', 'stats.rolling_sum', 'tinterpolate.tinterpolate', 'ws2d.ws2d', 'ws2dgu.ws2dgu', 'ws2doptv.ws2doptv', 'ws2doptvp._ws2doptvp', 'ws2doptvp.ws2doptvp', 'ws2doptvplc.ws2doptvplc', 'ws2doptvplc.ws2doptvplc_tyx', 'ws2dpgu.ws2dpgu', 'ws2dwcv.ws2dwcv', 'ws2dwcvp._ws2dwcvp', 'ws2dwcvp.ws2dwcvp', 'zonal.do_mean']


def entry_points():
    """discover_programs() plus every expected entry point that still exists as a callable of its module although it is no longer a
    Numba dispatcher itself (e.g. refactored into a Python wrapper around compiled helpers): what the library calls is what is checked."""
    import importlib

    progs = discover_programs()
    for q in EXPECTED:
        if q in progs:
            continue
        m, f = q.split(".")
        try:
            v = getattr(importlib.import_module("hdc.algo.ops." + m), f)
        except (ImportError, AttributeError):
            continue
        if callable(v):
            progs[q] = v
    return progs
