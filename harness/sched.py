"""Deterministic thread-schedule controller for one Python code object (used on the lazycompile wrapper)."""
from __future__ import annotations

import sys
import threading


class Sched:
    """Parks every thread at each line (or opcode) of `code`; a schedule (list of thread ids) decides who advances."""

    def __init__(self, code, nthreads, opcode=False):
        self.code = code
        self.n = nthreads
        self.opcode = opcode
        self.go = [threading.Semaphore(0) for _ in range(nthreads)]
        self.arrived = threading.Semaphore(0)
        self.done = [False] * nthreads
        self.tid = {}
        self.steps = [0] * nthreads

    def _tracer(self, frame, event, arg):
        if frame.f_code is not self.code:
            return None
        if self.opcode:
            frame.f_trace_opcodes = True
        i = self.tid[threading.get_ident()]
        want = "opcode" if self.opcode else "line"

        def local(frame, event, arg):
            if event == want:
                self.steps[i] += 1
                self.arrived.release()
                self.go[i].acquire()
            return local

        self.arrived.release()  # park at call, too
        self.go[i].acquire()
        return local

    def run(self, fn, schedule):
        """fn(i) is the body of thread i. Returns (results, errors, schedule actually used, pre-emptions)."""
        res = [None] * self.n
        err = [None] * self.n

        def body(i):
            self.tid[threading.get_ident()] = i
            sys.settrace(self._tracer)
            try:
                res[i] = fn(i)
            except BaseException as e:  # noqa: BLE001
                err[i] = repr(e)
            finally:
                sys.settrace(None)
                self.done[i] = True
                self.arrived.release()

        ts = [threading.Thread(target=body, args=(i,)) for i in range(self.n)]
        for t in ts:
            t.start()
        for _ in range(self.n):
            self.arrived.acquire()
        pos = 0
        used = []
        while not all(self.done):
            live = [i for i in range(self.n) if not self.done[i]]
            i = schedule[pos] if pos < len(schedule) and schedule[pos] in live else (used[-1] if used and used[-1] in live else live[0])
            pos += 1
            used.append(i)
            self.go[i].release()
            self.arrived.acquire()
        for t in ts:
            t.join()
        pre = sum(1 for a, b in zip(used, used[1:]) if a != b)
        return res, err, used, pre
