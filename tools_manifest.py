#!/opt/veriftools/pyvenv/bin/python
"""Regenerates MANIFEST.json from the table below (keeps it schema-valid)."""
import json, os, sys
HERE = os.path.dirname(os.path.abspath(__file__))
sys.path.insert(0, HERE)
from manifest_table import CHECKS, NOT_APPLICABLE, FIX_COMMITS

props = [json.loads(l)["id"] for l in open(os.path.join(HERE, "properties.jsonl"))]
checks = []
for pid in props:
    if pid not in CHECKS:
        continue
    c = CHECKS[pid]
    checks.append({
        "property_id": pid,
        "quick_cmd": "./check %s --tier quick" % pid,
        "thorough_cmd": "./check %s --tier thorough" % pid,
        "evidence_file": "evidence/%s.json" % pid,
        "replay_cmd_template": "./check %s --replay {path}" % pid,
        "engine": "hypothesis-pbt",
        "level_claimed": {"category": c["level"], "text": c["text"], "design_ref": "DESIGN.md section 3, %s" % pid},
        "level_note": c["note"],
        "technique": c["technique"],
    })
na = [{"property_id": p, "reason": r} for p, r in NOT_APPLICABLE.items() if p not in CHECKS]
for p in props:
    if p not in CHECKS and p not in NOT_APPLICABLE:
        na.append({"property_id": p, "reason": "check not built yet in this revision (work in progress, see DESIGN.md)"})
m = {
    "version": 1,
    "setup_cmd": "(/venv/bin/python -c 'import hypothesis' 2>/dev/null || /venv/bin/pip install --no-index --find-links /opt/veriftools/wheels hypothesis) && (test -d .deps/mpmath || /venv/bin/pip install -q --no-index --find-links /opt/veriftools/wheels --target .deps mpmath || true)",
    "hooks": {
        "guard": "HDC_ALGO_VERIF",
        "enable": "no source hooks are needed: checks import /repo's working tree (editable install) and observe public entry points (py_func, __wrapped__, gufunc out=, NUMBA_BOUNDSCHECK, numba.set_num_threads, sys.settrace)",
        "baseline_off_cmd": "cd /repo && /venv/bin/python -m pytest -ra -q -p no:cacheprovider --timeout=900 --continue-on-collection-errors",
        "source_commits": [],
        "add_only": True,
    },
    "engines": [{"name": "hypothesis-pbt", "path": "check", "serves_properties": [c["property_id"] for c in checks],
                 "kind_free_text": "Hypothesis 6.168 generators + complete enumeration of finite sub-domains, explicit reference-model / metamorphic / differential oracles, shrunk replay files"}],
    "checks": checks,
    "not_applicable": na,
    "notes": "Unguarded fix: commits in /repo (genuine defects repaired): %s. See known_findings.json and DESIGN.md section 5." % ", ".join(FIX_COMMITS),
}
json.dump(m, open(os.path.join(HERE, "MANIFEST.json"), "w"), indent=1)
import jsonschema
jsonschema.validate(m, json.load(open("/root/.vp/MANIFEST.schema.json")))
print("MANIFEST.json written: %d checks, %d not_applicable" % (len(checks), len(na)))
