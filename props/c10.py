"""C10 - Mann-Kendall trend follows its definition and symmetries."""
from __future__ import annotations

import itertools

import numpy as np
import pandas as pd
import xarray as xr
from hypothesis import strategies as st

import hdc.algo  # noqa: F401
from hdc.algo.ops import stats
from harness import refs
from harness.util import call, req, fmt

PID = "C10"
LEVEL = "exploration"
RULE = ("[seventh seeded round] sub-check 'blocks': mktrend on 4 equally shaped dask blocks of 1200 series x 110 steps evaluated by 8-16 threads at once (three times) must equal the in-memory result. " +
        "Exhaustive part: every weak ordering (rank pattern) of length 2..6 (quick) / 2..7 (thorough; 52 608 patterns) as int16 and as "
        "float32 through the compiled gufunc, compared with a definition-level model (S by pair counting, tie-corrected variance, "
        "continuity-corrected Z, p = 2 sf(|Z|), Sen slope as median of pairwise slopes, flag = sign(Z)[p<0.05]). Generated part: series "
        "n 2..200 with heavy ties (int16 |x|<=16000, float32), through mann_kendall_trend_1d, both gufunc wrappers, "
        "mann_kendall_trend_yxt and DataArray.hdc.algo.mktrend(); invariances (strictly increasing maps, negation, reversal, slope "
        "scaling) and the all-nodata rule. float32 outputs compared at 2 ulp32 (+4e-16 absolute for p). Non-trivial: the pattern has "
        "a tie or n != 10; distinct by content hash / pattern. "
        " Added after the fourth seeded round: Sub-check 'critical': for every length 8..200 (400) the two tie-free series whose Z straddles the 5 % critical value most tightly, through all six entry points.")
ASSUME = ["scipy.special.ndtr for the reference p-value", "either flag accepted when |p - 0.05| < 1e-9"]
EXHAUSTIVE_WHOLE = False


def _ulp32(v):
    return float(np.spacing(np.float32(abs(v)))) if np.isfinite(v) else 0.0


def _cmp(what, got, want, xs, dtype):
    tau, p, slope, trend = [float(v) for v in got[:3]] + [int(got[3])]
    desc = "(n=%d, dtype=%s, x=%s)" % (len(xs), dtype, fmt(xs, 16))
    req(abs(tau - want["tau"]) <= 2 * _ulp32(want["tau"]) + 1e-12, "%s: tau %r, definition %r %s" % (what, tau, want["tau"], desc), what + " tau")
    req(abs(p - want["p"]) <= 2 * _ulp32(want["p"]) + 4e-16, "%s: p %r, definition %r (S=%d, Var=%r) %s" % (what, p, want["p"], want["s"], want["var"], desc),
        what + " p-value")
    mx = max(abs(float(v)) for v in xs)
    stol = 2 * _ulp32(want["slope"]) + (2 * float(np.finfo(np.float32).eps) * mx if dtype == "float32" else 0.0) + 1e-12
    req(abs(slope - want["slope"]) <= stol, "%s: Sen slope %r, median of pairwise slopes %r %s" % (what, slope, want["slope"], desc), what + " slope")
    if abs(want["p"] - 0.05) >= 1e-9:
        req(trend == want["trend"], "%s: trend flag %d, definition %d (Z=%r, p=%r) %s" % (what, trend, want["trend"], want["z"], want["p"], desc),
            what + " trend flag")


def _xs(case):
    dtype = case["dtype"]
    x = np.array(case["x"], dtype="float64").astype(dtype)
    return x, dtype


def sub_definition(case):
    x, dtype = _xs(case)
    want = refs.mk([float(v) for v in x])
    path = case.get("path", "gu")
    if path == "gu":
        got = call("_mann_kendall_trend_gu", stats._mann_kendall_trend_gu, x)
        req(got[0].dtype == np.float32 and got[3].dtype == np.int8, "gufunc output dtypes %s" % [g.dtype for g in got], "gu dtypes")
    elif path == "gu_nd":
        got = call("_mann_kendall_trend_gu_nd", stats._mann_kendall_trend_gu_nd, x, -32768.0)
    elif path == "1d":
        got = call("mann_kendall_trend_1d", stats.mann_kendall_trend_1d, x)
        got = (np.float32(got[0]), np.float32(got[1]), np.float32(got[2]), got[3])
    elif path == "yxt":
        r = call("mann_kendall_trend_yxt", stats.mann_kendall_trend_yxt, x.reshape(1, 1, -1))
        got = tuple(r[0, 0])
    else:
        t = pd.date_range("2000-01-01", periods=x.size, freq="YS")
        da = xr.DataArray(x.reshape(-1, 1, 1), dims=("time", "y", "x"), coords={"time": t})
        if path == "accessor_nd":
            da.attrs["nodata"] = -32768
        ds = call("mktrend()", lambda: da.hdc.algo.mktrend())
        req(set(ds.data_vars) == {"tau", "pvalue", "slope", "trend"}, "mktrend variables %s" % sorted(ds.data_vars), "mktrend variables")
        req(ds.trend.attrs.get("nodata") == -2, "trend nodata attr %r" % ds.trend.attrs.get("nodata"), "mktrend attrs")
        got = (ds.tau.values[0, 0], ds.pvalue.values[0, 0], ds.slope.values[0, 0], ds.trend.values[0, 0])
    _cmp(path, got, want, x.tolist(), dtype)


def sub_invariance(case):
    x, dtype = _xs(case)
    f = stats._mann_kendall_trend_gu
    base = [np.asarray(v) for v in call("gu", f, x)]
    desc = "(dtype=%s, x=%s)" % (dtype, fmt(x, 16))

    def same(what, y, sign=1):
        y = np.asarray(y).astype(dtype)
        # the transformed series must have the same order structure after rounding to dtype
        if not np.array_equal(np.sign(np.subtract.outer(y.astype(np.float64), y.astype(np.float64))),
                              sign * np.sign(np.subtract.outer(x.astype(np.float64), x.astype(np.float64)))):
            return False
        g = [np.asarray(v) for v in call("gu", f, y)]
        req(g[0] == sign * base[0] and g[1] == base[1] and g[3] == sign * base[3],
            "%s changes (tau, p, flag) from (%r, %r, %d) to (%r, %r, %d) %s" % (what, float(base[0]), float(base[1]), int(base[3]),
                                                                                 float(g[0]), float(g[1]), int(g[3]), desc), "invariance " + what)
        return g

    a, b = case["a"], case["b"]
    xf = x.astype(np.float64)
    g = same("affine map a*x+b (a>0)", a * xf + b)
    if g and dtype == "int16":
        req(abs(float(g[2]) - a * float(base[2])) <= 4 * _ulp32(a * float(base[2])) + 1e-9, "slope(a*x+b) = %r, a*slope(x) = %r %s" % (
            float(g[2]), a * float(base[2]), desc), "slope scaling")
    ranks = np.searchsorted(np.unique(xf), xf).astype(np.float64)
    same("rank transform", ranks)
    if dtype == "float32":
        same("cubic map", np.cbrt(xf) if case.get("cbrt") else xf ** 3 / 1e6)
    g = same("negation", -xf, sign=-1)
    if g:
        req(abs(float(g[2]) + float(base[2])) <= 2 * _ulp32(float(base[2])) + 1e-12, "slope(-x) = %r, slope(x) = %r %s" % (float(g[2]), float(base[2]), desc),
            "slope negation")
    # time reversal
    r = [np.asarray(v) for v in call("gu", f, x[::-1].copy())]
    req(r[0] == -base[0] and r[1] == base[1] and r[3] == -base[3], "time reversal gives (tau, p, flag) (%r, %r, %d), expected (%r, %r, %d) %s" % (
        float(r[0]), float(r[1]), int(r[3]), -float(base[0]), float(base[1]), -int(base[3]), desc), "invariance reversal")
    req(abs(float(r[2]) + float(base[2])) <= 2 * _ulp32(float(base[2])) + 1e-12, "slope(reversed) = %r, slope = %r %s" % (float(r[2]), float(base[2]), desc),
        "slope reversal")


def sub_nodata(case):
    dtype = case["dtype"]
    nd = case["nodata"]
    nt = case["nt"]
    x = np.full(nt, nd, dtype=dtype)
    got = call("_mann_kendall_trend_gu_nd", stats._mann_kendall_trend_gu_nd, x, float(nd))
    req(float(got[0]) == nd and float(got[1]) == nd and float(got[2]) == nd and int(got[3]) == -2,
        "all-nodata pixel -> (%r, %r, %r, %r), expected nodata x3 and -2" % tuple(float(v) for v in got), "all-nodata kernel")
    t = pd.date_range("2000-01-01", periods=nt, freq="YS")
    other = np.array(case["other"], dtype=dtype)
    cube = np.stack([x, other], axis=1).reshape(nt, 2, 1)
    da = xr.DataArray(cube, dims=("time", "y", "x"), coords={"time": t}, attrs={"nodata": nd}).transpose(*case["dims"])
    ds = call("mktrend()", lambda: da.hdc.algo.mktrend())
    req(float(ds.tau.isel(y=0, x=0)) == nd and float(ds.pvalue.isel(y=0, x=0)) == nd and float(ds.slope.isel(y=0, x=0)) == nd and
        int(ds.trend.isel(y=0, x=0)) == -2, "mktrend(): all-nodata pixel -> tau %r trend %r" % (float(ds.tau.isel(y=0, x=0)), int(ds.trend.isel(y=0, x=0))),
        "all-nodata accessor")
    want = refs.mk([float(v) for v in other])
    _cmp("mktrend() neighbour pixel", (ds.tau.isel(y=1, x=0).values, ds.pvalue.isel(y=1, x=0).values, ds.slope.isel(y=1, x=0).values,
                                        ds.trend.isel(y=1, x=0).values), want, other.tolist(), dtype)


def sub_history(case):
    """One DataArray object: mktrend() is queried, the nodata attribute is set / changed / removed in place, values are overwritten in
    place, and mktrend() is queried again - every answer must describe the array and its attributes as they are at that moment."""
    dtype = case["dtype"]
    nt = case["nt"]
    vals = np.array(case["pixels"], dtype="float64").astype(dtype)  # (npix, nt)
    t = pd.date_range("2000-01-01", periods=nt, freq="YS")
    da = xr.DataArray(vals.T.copy().reshape(nt, vals.shape[0], 1), dims=("time", "y", "x"), coords={"time": t})
    nodata = None
    for op in case["ops"]:
        if op[0] == "set_nodata":
            nodata = op[1]
            da.attrs["nodata"] = nodata
        elif op[0] == "del_nodata":
            nodata = None
            da.attrs.pop("nodata", None)
        elif op[0] == "fill_pixel":
            px = op[1] % vals.shape[0]
            v = nodata if nodata is not None else op[2]
            vals[px, :] = v
            da.values[:, px, 0] = v
        elif op[0] == "query":
            ds = call("mktrend() in a history", lambda: da.hdc.algo.mktrend())
            for i in range(vals.shape[0]):
                row = vals[i]
                got = (float(ds.tau.values[i, 0]), float(ds.pvalue.values[i, 0]), float(ds.slope.values[i, 0]), int(ds.trend.values[i, 0]))
                if nodata is not None and bool((row == nodata).all()):
                    req(got == (float(nodata), float(nodata), float(nodata), -2), "mktrend() after the history %s: pixel %d is entirely nodata (%r) but "
                        "yields %s" % ([o[0] for o in case["ops"]], i, nodata, got), "history all-nodata pixel")
                else:
                    want = refs.mk([float(v) for v in row])
                    _cmp("mktrend() after the history %s pixel %d" % ([o[0] for o in case["ops"]], i), got, want, row.tolist(), dtype)


def critical_series(n, above, neg):
    """Tie-free permutation of 0..n-1 whose S is the smallest (above) / largest (not above) value of the right parity with
    continuity-corrected Z just beyond / just inside the two-sided 5% critical value; negated when neg."""
    from scipy.special import ndtri
    import math
    zc = float(ndtri(0.975))
    big = n * (n - 1) // 2
    sd = math.sqrt(n * (n - 1) * (2 * n + 5) / 18)
    s = int(math.floor(zc * sd + 1))
    while (s - 1) / sd <= zc:
        s += 1
    if (big - s) % 2:
        s += 1
    if not above:
        s -= 2
    if s > big or s < 0:
        return None
    inv = (big - s) // 2
    k = 0
    while (k + 1) * k // 2 <= inv:
        k += 1
    x = list(range(k - 1, -1, -1)) + list(range(k, n))
    r = inv - k * (k - 1) // 2
    if r:
        v = x.pop(k)
        x.insert(k - r, v)
    if neg:
        x = [-v for v in x]
    return x


def sub_critical(case):
    x = critical_series(case["n"], case["above"], case["neg"])
    req(x is not None, "no critical series for n=%d" % case["n"], "critical generator")
    a, b = case.get("a", 1), case.get("b", 0)
    sub_definition({"x": [float(a * v + b) for v in x], "dtype": case["dtype"], "path": case["path"]})


def sub_blocks(case):
    """mktrend on a cube of long series cut into equally shaped dask blocks of several hundred pixels, evaluated by several threads at
    once, against the in-memory call (tau, p, slope and flag alike)."""
    import pandas as pd
    import xarray as xr
    from harness import lazyblocks

    ny, nx, nt = case["shape"]
    rng = np.random.default_rng(int(case["salt"]))  # a pure function of the case
    cube = (rng.integers(-300, 300, size=(ny, nx, nt)) + (np.arange(nt)[None, None, :] * rng.integers(-3, 4, size=(ny, nx, 1)))).astype(case.get("dtype", "int16"))
    da = xr.DataArray(cube, dims=("y", "x", "time"), coords={"time": pd.date_range("2000-01-01", periods=nt, freq="10D")}).transpose(*case["dims"])
    if case.get("nodata") is not None:
        da.attrs["nodata"] = case["nodata"]
    lazyblocks.check("mktrend()", lambda d: d.hdc.algo.mktrend(), da, {"y": case["block"], "x": -1, "time": -1}, workers=case.get("workers", 8), repeats=case.get("repeats", 3))


SUBS = {"blocks": sub_blocks, "critical": sub_critical, "definition": sub_definition, "invariance": sub_invariance, "nodata": sub_nodata, "history": sub_history}


def weak_orderings(n):
    out = []
    for t in itertools.product(range(n), repeat=n):
        m = max(t)
        if len(set(t)) == m + 1:
            out.append(t)
    return np.array(out, dtype=np.int64)


def _enumerate(ctx, nmax):
    rec = ctx.rec
    for n in range(2, nmax + 1):
        pats = weak_orderings(n)
        for dtype in ("int16", "float32"):
            scale = 37 if dtype == "int16" else 0.75
            x = (pats * scale - 50).astype(dtype)
            got = call("_mann_kendall_trend_gu", stats._mann_kendall_trend_gu, x)
            for i in range(pats.shape[0]):
                want = refs.mk([float(v) for v in x[i]])
                try:
                    _cmp("gu", (got[0][i], got[1][i], got[2][i], got[3][i]), want, x[i].tolist(), dtype)
                except Exception:
                    ctx.run_case("definition", {"x": x[i].tolist(), "dtype": dtype, "path": "gu"})
                    return False
            rec.case("definition", {"x": x[-1].tolist(), "dtype": dtype, "path": "gu"}, count=pats.shape[0], cls="enum_n%d_%s" % (n, dtype))
            rec.bulk_nontrivial("definition", {("mk", n, dtype, i) for i in range(pats.shape[0])})
    rec.exhaustive_parts.append("Mann-Kendall gufunc: all weak orderings of length 2..%d as int16 and float32" % nmax)
    return True


@st.composite
def series(draw, nmax):
    n = draw(st.one_of(st.integers(2, 12), st.integers(2, nmax)))
    dtype = draw(st.sampled_from(["int16", "float32"]))
    kind = draw(st.sampled_from(["ties", "ties", "wide", "trend", "constant"]))
    if kind == "ties":
        k = draw(st.integers(1, 6))
        vals = draw(st.lists(st.integers(-16000, 16000), min_size=k, max_size=k, unique=True))
        x = draw(st.lists(st.sampled_from(vals), min_size=n, max_size=n))
    elif kind == "wide":
        x = draw(st.lists(st.integers(-16000, 16000), min_size=n, max_size=n))
    elif kind == "trend":
        sl = draw(st.integers(-60, 60))
        nz = draw(st.integers(0, 300))
        x = [max(-16000, min(16000, sl * t + draw(st.integers(-nz, nz)))) for t in range(n)]
    else:
        x = [draw(st.integers(-16000, 16000))] * n
    if dtype == "float32" and draw(st.booleans()):
        f = draw(st.sampled_from([0.001, 0.37, 1.5]))
        x = [float(np.float32(v * f)) for v in x]
    return {"x": [float(v) for v in x], "dtype": dtype, "kind": kind}


def run(ctx):
    rec = ctx.rec
    if not _enumerate(ctx, ctx.n(6, 7)):
        return

    # equally shaped dask blocks of several hundred long series in flight at the same time (state shared between concurrent gufunc calls)
    for k in range(ctx.n(2, 8)):
        case = {"shape": [8, 600, 110], "block": 2, "salt": ctx.seed * 17 + k, "workers": [8, 16][k % 2], "dims": [["time", "y", "x"], ["y", "x", "time"]][k % 2],
                "dtype": ["int16", "float32"][k % 2], "nodata": [None, -9999][k % 2], "repeats": 3}
        rec.case("blocks", case, nontrivial=True, cls="blocks:" + case["dtype"])
        if not ctx.run_case("blocks", case):
            break

    def f_def(case):
        xs = case["x"]
        rec.case("definition", case, nontrivial=len(set(xs)) < len(xs) or len(xs) != 10, cls=["path:" + case["path"], "dtype:" + case["dtype"], "kind:" + case["kind"]])
        sub_definition(case)

    paths = st.sampled_from(["gu", "gu_nd", "1d", "yxt", "accessor", "accessor_nd"])
    ctx.given("definition", st.builds(lambda c, p: dict(c, path=p), series(ctx.n(80, 200)), paths), ctx.n(500, 6000), fn=f_def)

    # significance threshold: for every length the two tie-free series whose Z straddles the 5% critical value most tightly
    paths_c = ["gu", "gu_nd", "1d", "yxt", "accessor", "accessor_nd"]
    k = 0
    for n in range(8, ctx.n(200, 400) + 1):
        for above in (True, False):
            for neg in (False, True):
                k += 1
                case = {"n": n, "above": above, "neg": neg, "dtype": ["int16", "float32"][k % 2], "path": paths_c[k % 6],
                        "a": [1, 3, 7][k % 3], "b": [0, -5000, 1234][k % 3]}
                if critical_series(n, above, neg) is None:
                    continue
                rec.case("critical", case, nontrivial=True, cls=["above" if above else "inside", "neg" if neg else "pos"])
                if not ctx.run_case("critical", case):
                    return

    def f_inv(case):
        rec.case("invariance", case, nontrivial=len(set(case["x"])) > 1, cls=["dtype:" + case["dtype"], "kind:" + case["kind"]])
        sub_invariance(case)

    inv = st.builds(lambda c, a, b, cb: dict(c, x=[v / 8 if c["dtype"] == "int16" and False else v for v in c["x"]], a=a, b=b, cbrt=cb),
                    series(ctx.n(60, 200)), st.integers(1, 2), st.integers(-700, 700), st.booleans())
    ctx.given("invariance", inv, ctx.n(400, 5000), fn=f_inv)

    def f_h(case):
        kinds = [o[0] for o in case["ops"]]
        rec.case("history", case, nontrivial="query" in kinds and len(kinds) >= 3, cls="ops=%d" % len(kinds))
        sub_history(case)

    hist = st.integers(3, 10).flatmap(lambda nt: st.builds(
        lambda dtp, px, ops: {"dtype": dtp, "nt": nt, "pixels": px, "ops": [list(o) for o in ops] + [["query"]]},
        st.sampled_from(["int16", "float32"]), st.lists(st.lists(st.integers(1, 500), min_size=nt, max_size=nt), min_size=1, max_size=3),
        st.lists(st.one_of(st.tuples(st.just("query")), st.tuples(st.just("set_nodata"), st.sampled_from([-9999, 0, 255, -1])),
                           st.tuples(st.just("del_nodata")), st.tuples(st.just("fill_pixel"), st.integers(0, 2), st.integers(600, 900))),
                 min_size=2, max_size=8)))
    ctx.given("history", hist, ctx.n(200, 3000), fn=f_h)

    def f_nd(case):
        rec.case("nodata", case, nontrivial=True, cls=["dtype:" + case["dtype"]])
        sub_nodata(case)

    nd = st.integers(2, 30).flatmap(lambda nt: st.builds(
        lambda dtp, ndv, other, dims: {"dtype": dtp, "nodata": ndv, "nt": nt, "other": other, "dims": list(dims)},
        st.sampled_from(["int16", "float32"]), st.sampled_from([-9999, -32768, 0]),
        st.lists(st.integers(1, 9000), min_size=nt, max_size=nt), st.permutations(["time", "y", "x"])))
    ctx.given("nodata", nd, ctx.n(100, 1000), fn=f_nd)
