"""C18 - run-length statistics equal the longest / current run of ones."""
from __future__ import annotations

import itertools

import numpy as np
import pandas as pd
import xarray as xr
from hypothesis import strategies as st

import hdc.algo  # noqa: F401  (registers accessors)
from hdc.algo import ops
from harness.core import Violation
from harness.util import call, req, fmt

PID = "C18"
LEVEL = "exploration"
RULE = ("[seventh seeded round] croo on long records (130..1000 steps, current run of 127..1000 members) stored in uint8/int8/int16/int32/int64 cubes, rotated / reversed stored order. " +
        "lroo: every binary series of length 1..16 (thorough: 1..20) enumerated through the compiled gufunc "
        "and through DataArray.hdc.algo.lroo(); generated run-length-encoded series up to 1000 steps (runs "
        "of 200..1000 ones at start/middle/end), series over {0,1,2,255}. croo: every binary series of length "
        "n<=6 under every permutation of the stored time order, generated permutations up to n=60, dims in "
        "any order; generated histories on ONE array object (time labels re-assigned in place, values overwritten, croo/lroo queried in between). Oracle: plain run-length model. Non-trivial: the series holds a run of >=2 ones (lroo) / "
        "the stored order is not chronological or the latest step is 1 (croo); distinct by content hash. "
        " Added after the fourth seeded round: Regular descending time axes (negative freq); sub-check 'aliasing': same-shaped rasters of >= 32768 pixels as cubes, Dataset variables and dask blocks, compared at the end. "
        " Added after the fifth seeded round: dask input with irregular time chunks (refused or right).")
ASSUME = ["numpy, xarray and pandas sort/indexing primitives used to build inputs are correct",
          "croo is claimed for 0/1 valued arrays with unique timestamps only"]
EXHAUSTIVE_WHOLE = False


# ---- reference models ------------------------------------------------------------------------
def ref_lroo(s):
    best = cur = 0
    for v in s:
        cur = cur + 1 if v == 1 else 0
        if cur > best:
            best = cur
    return best if best >= 2 else 0


def ref_croo(values_by_time):
    """values in chronological order -> run of ones ending at the last step."""
    r = 0
    for v in reversed(values_by_time):
        if v != 1:
            break
        r += 1
    return r


def _rle_to_series(rle):
    out = []
    for v, k in rle:
        out.extend([v] * k)
    return out


# ---- sub-checks (replayable) -----------------------------------------------------------------
def sub_lroo_kernel(case):
    s = np.array(case["series"], dtype="uint8")
    got = call("ops.lroo", ops.lroo, s)
    want = ref_lroo(case["series"])
    req(int(got) == want, "lroo kernel: series %s (len %d) -> %d, longest run model says %d" % (
        fmt(s), s.size, int(got), want), "lroo kernel value")


def sub_lroo_accessor(case):
    rows = case["pixels"]  # list of equal-length series
    order = case.get("dims", ["y", "x", "time"])
    arr = np.array(rows, dtype="uint8")  # (pix, time)
    npx = arr.shape[0]
    cube = arr.reshape(npx, 1, arr.shape[1])
    da = xr.DataArray(cube, dims=("y", "x", "time"),
                      coords={"time": pd.date_range("2000-01-01", periods=arr.shape[1], freq="D")})
    da = da.transpose(*order)
    if case.get("tchunks"):
        # dask input whose TIME axis is split into (irregular) chunks: the accessor may refuse it, but if it answers the answer
        # must be the longest run of the whole series
        sizes, left = [], arr.shape[1]
        for c in case["tchunks"]:
            if left <= 0:
                break
            sizes.append(min(int(c), left))
            left -= sizes[-1]
        if left > 0:
            sizes.append(left)
        lz = da.chunk({"time": tuple(sizes), "y": -1, "x": -1})
        try:
            res = lz.hdc.algo.lroo().compute(scheduler="synchronous")
        except Exception:  # noqa: BLE001 - refusing a chunked time axis is allowed
            return "refused_time_chunks"
    else:
        res = call("hdc.algo.lroo", lambda: da.hdc.algo.lroo())
    req("time" not in res.dims and set(res.dims) == {"y", "x"}, "lroo accessor dims %s" % (res.dims,), "lroo dims")
    res = res.transpose("y", "x").values.reshape(npx)
    for i in range(npx):
        want = ref_lroo(rows[i])
        req(int(res[i]) == want, "lroo accessor: pixel %s -> %d, model %d" % (fmt(arr[i]), int(res[i]), want),
            "lroo accessor value")
    return None


def _croo_da(rows, stored_order, dims, axis="fancy", dtype="int64"):
    """rows: chronological series per pixel; stored_order: permutation p, stored[k] = chrono[p[k]]."""
    arr = np.array(rows, dtype=dtype)
    nt = arr.shape[1]
    t = pd.date_range("2001-03-01", periods=nt, freq="10D")
    p = np.array(stored_order)
    cube = arr[:, p].reshape(arr.shape[0], 1, nt)
    tp = t[p]
    if axis != "fancy" and nt > 1 and list(stored_order) == list(range(nt - 1, -1, -1)):
        # a descending axis that is still "regular": a DatetimeIndex that carries a negative frequency, as date_range(freq="-10D")
        # or a reversing slice of a regular axis produce
        tp = pd.date_range(t[-1], periods=nt, freq="-10D") if axis == "negative_freq" else t[::-1]
        assert list(tp) == list(t[p]) and tp.freq is not None
    da = xr.DataArray(cube, dims=("y", "x", "time"), coords={"time": tp})
    return da.transpose(*dims)


def sub_croo(case):
    rows = case["pixels"]
    if case.get("rle") is not None:
        # long series written as runs [[value, count], ...] per pixel; the stored order is a rotation / reversal of the chronological one
        rows = [[v for v, c in px for _ in range(c)] for px in case["rle"]]
        nt = len(rows[0])
        k = int(case.get("rot", 0)) % nt
        order = list(range(k, nt)) + list(range(k))
        case = dict(case, order=order[::-1] if case.get("rev") else order)
    da = _croo_da(rows, case["order"], case.get("dims", ["time", "y", "x"]), case.get("axis", "fancy"), case.get("dtype", "int64"))
    res = call("hdc.algo.croo", lambda: da.hdc.algo.croo())
    req("time" not in res.dims, "croo keeps the time dim: %s" % (res.dims,), "croo dims")
    res = res.transpose("y", "x").values.reshape(len(rows))
    for i, r in enumerate(rows):
        want = ref_croo(r)
        req(int(res[i]) == want and float(res[i]) == want,
            "croo: chronological series %s stored in order %s -> %s, model %d" % (
                fmt(r, 20), fmt(case["order"], 20), res[i], want), "croo value")
        lro = int(ops.lroo(np.array(r, dtype="uint8")))
        req(int(res[i]) <= max(lro, 1), "croo %d > max(lroo %d, 1) for %s" % (int(res[i]), lro, fmt(r, 20)),
            "croo<=lroo")


def sub_history(case):
    """One DataArray object, a history of in-place edits (time labels re-assigned, values overwritten) and queries: every croo() /
    lroo() answer must describe the array as it is at that moment (no state may survive from an earlier call)."""
    nt = case["nt"]
    base = pd.date_range("2001-03-01", periods=nt, freq="10D")
    vals = np.array(case["pixels"], dtype="int64")            # (npix, nt) in stored order
    order = list(range(nt))                                      # stored position k holds chronological rank order[k]
    da = xr.DataArray(vals.T.copy().reshape(nt, vals.shape[0], 1), dims=("time", "y", "x"), coords={"time": base})
    for op in case["ops"]:
        kind = op[0]
        if kind == "set_time":
            order = list(op[1])
            da["time"] = base[np.array(order)]
        elif kind == "assign_time":
            order = list(op[1])
            da = da.assign_coords(time=base[np.array(order)])
        elif kind == "set_values":
            px, pos, v = op[1] % vals.shape[0], op[2] % nt, op[3]
            vals[px, pos] = v
            da.values[pos, px, 0] = v
        elif kind in ("croo", "lroo"):
            res = call("hdc.algo.%s after %d operations" % (kind, case["ops"].index(op)), lambda: getattr(da.hdc.algo, kind)() if kind == "croo"
                       else da.astype("uint8").hdc.algo.lroo())
            got = res.values.reshape(vals.shape[0])
            for i in range(vals.shape[0]):
                chrono = [int(vals[i, order.index(r)]) for r in range(nt)]
                want = ref_croo(chrono) if kind == "croo" else ref_lroo([int(v) for v in vals[i]])
                req(int(got[i]) == want, "%s on the same array after the history %s: pixel stored %s with time order %s -> %d, model %d" % (
                    kind, [o[0] for o in case["ops"][:case["ops"].index(op) + 1]], fmt(vals[i], 12), fmt(order, 12), int(got[i]), want),
                    "%s stale after in-place edit" % kind)


def _bits(ny, nx, nt, salt):
    i, j, t = np.meshgrid(np.arange(ny), np.arange(nx), np.arange(nt), indexing="ij")
    return (((i * 7 + j * 13 + t * 5 + salt * 11 + (i * j) % (salt + 2)) % 3) != 0).astype("uint8")


def _lroo_np(a):
    """Longest run of ones along the last axis, vectorised (model for big rasters)."""
    best = np.zeros(a.shape[:-1], dtype=np.int64)
    cur = np.zeros(a.shape[:-1], dtype=np.int64)
    for t in range(a.shape[-1]):
        cur = np.where(a[..., t] == 1, cur + 1, 0)
        best = np.maximum(best, cur)
    return np.where(best >= 2, best, 0)  # a single one is not a run (as in ref_lroo)


def sub_aliasing(case):
    """Results stay what they were: several same-shaped rasters (as separate cubes, as the variables of one Dataset, and lazily
    in equal blocks) are processed one after the other and every result is compared with the model only at the end."""
    ny, nx, nt = case["shape"]
    t = pd.date_range("2000-01-01", periods=nt, freq="D")
    cubes = [_bits(ny, nx, nt, s) for s in case["salts"]]
    das = [xr.DataArray(c, dims=("y", "x", "time"), coords={"time": t}) for c in cubes]
    held = [call("hdc.algo.lroo (raster %d of %d, %dx%d pixels)" % (k, len(das), ny, nx), lambda d=d: d.hdc.algo.lroo()) for k, d in enumerate(das)]
    heldc = [call("hdc.algo.croo", lambda d=d: d.hdc.algo.croo()) for d in das]
    ds = xr.Dataset({"v%d" % k: d for k, d in enumerate(das)})
    dsr = call("Dataset.hdc.algo.lroo", lambda: ds.hdc.algo.lroo())
    outs = [("cube %d" % k, h.values) for k, h in enumerate(held)] + [("Dataset variable v%d" % k, dsr["v%d" % k].values) for k in range(len(das))]
    if case.get("lazy"):
        lz = das[0].chunk({"y": ny // 2, "x": nx, "time": -1})
        outs.append(("cube 0 in two equal dask blocks", call("lazy lroo", lambda: lz.hdc.algo.lroo().compute(scheduler="synchronous")).values))
    for (what, got), c in zip(outs, cubes + cubes + cubes[:1]):
        want = _lroo_np(c)
        bad = np.argwhere(np.asarray(got).astype(np.int64) != want)
        req(bad.size == 0, "lroo of %s (%dx%d pixels, %d steps) is wrong at %d pixels once the other same-shaped rasters have been processed "
            "(first at %s: %s, model %s)" % (what, ny, nx, nt, len(bad), bad[:1].tolist(), np.asarray(got)[tuple(bad[0])] if bad.size else None,
                                              want[tuple(bad[0])] if bad.size else None), "lroo result aliased")
    for k, (h, c) in enumerate(zip(heldc, cubes)):
        rev = c[..., ::-1]
        want = np.where(rev.all(axis=-1), nt, np.argmin(rev, axis=-1))
        req(np.array_equal(h.values.astype(np.int64), want), "croo of cube %d (%dx%d pixels) is wrong once the other rasters have been processed" % (k, ny, nx),
            "croo result aliased")


SUBS = {"aliasing": sub_aliasing, "lroo_kernel": sub_lroo_kernel, "lroo_accessor": sub_lroo_accessor, "croo": sub_croo, "history": sub_history}


# ---- search ---------------------------------------------------------------------------------
def _enum_lroo(ctx, maxlen):
    """All binary series of each length through one gufunc call per length."""
    for n in range(1, maxlen + 1):
        allrows = np.array(list(itertools.product((0, 1), repeat=n)), dtype="uint8") if n <= 16 else \
            ((np.arange(2 ** n, dtype=np.uint32)[:, None] >> np.arange(n - 1, -1, -1)) & 1).astype("uint8")
        got = call("ops.lroo", ops.lroo, allrows)
        req(got.shape == (allrows.shape[0],), "lroo output shape %s" % (got.shape,))
        # vectorised model for bulk, plain model on every row for n <= 16
        nontriv = 0
        if n <= 16:
            for row, g in zip(allrows.tolist(), got.tolist()):
                w = ref_lroo(row)
                if w >= 2:
                    nontriv += 1
                if g != w:
                    ctx.run_case("lroo_kernel", {"series": row})
                    return
        else:
            pad = np.zeros((allrows.shape[0], 1), dtype="int32")
            a = np.concatenate([pad, allrows.astype("int32"), pad], axis=1)
            best = np.zeros(allrows.shape[0], dtype="int32")
            cur = np.zeros(allrows.shape[0], dtype="int32")
            for j in range(1, n + 1):
                cur = np.where(a[:, j] == 1, cur + 1, 0)
                best = np.maximum(best, cur)
            want = np.where(best >= 2, best, 0)
            nontriv = int((best >= 2).sum())
            bad = np.nonzero(got.astype("int64") != want)[0]
            if bad.size:
                ctx.run_case("lroo_kernel", {"series": allrows[bad[0]].tolist()})
                return
        ctx.rec.case("lroo_kernel", None, count=allrows.shape[0], cls="enum_len_%d" % n)
        ctx.rec.bulk_nontrivial("lroo_kernel", {("lroo", n, i) for i in range(nontriv)})
        if n <= 3:
            ctx.rec.case("lroo_kernel", {"series": allrows[-1].tolist()}, count=0)
    ctx.rec.exhaustive_parts.append("lroo kernel: all binary series of length 1..%d" % maxlen)


def run(ctx):
    # 1. exhaustive small binary series, kernel
    _enum_lroo(ctx, ctx.n(16, 20))

    # 2. accessor on stacked pixels: all binary series of length n (n <= 10) as pixels of one cube
    for n in range(1, ctx.n(9, 12) + 1):
        rows = [list(r) for r in itertools.product((0, 1), repeat=n)]
        for dims in (["time", "y", "x"], ["y", "time", "x"], ["y", "x", "time"]):
            case = {"pixels": rows, "dims": dims}
            ok = ctx.run_case("lroo_accessor", case)
            ctx.rec.case("lroo_accessor", {"pixels": "all %d binary series of length %d" % (len(rows), n), "dims": dims},
                         nontrivial=n >= 2, cls="enum", count=1)
            if not ok:
                break

    # 3. generated long run-length-encoded series (runs beyond 255)
    long_run = st.tuples(st.just(1), st.one_of(st.integers(2, 40), st.integers(200, 1000), st.sampled_from([254, 255, 256, 257, 510, 511, 512, 513])))
    other = st.tuples(st.sampled_from([0, 0, 2, 255]), st.integers(1, 30))
    rle = st.lists(st.one_of(long_run, other), min_size=1, max_size=8)

    def long_case(r):
        s = _rle_to_series(r)[:1000]
        return {"series": s}

    def f_long(case):
        w = ref_lroo(case["series"])
        ctx.rec.case("lroo_kernel", case, nontrivial=w >= 2,
                     cls="long>255" if w > 255 else ("long" if w >= 2 else "none"))
        sub_lroo_kernel(case)

    ctx.given("lroo_kernel", rle.map(long_case), ctx.n(400, 6000), fn=f_long)

    def f_long_acc(case):
        w = max(ref_lroo(p) for p in case["pixels"])
        ctx.rec.case("lroo_accessor", case, nontrivial=w >= 2, cls="long>255" if w > 255 else "gen")
        sub_lroo_accessor(case)

    def acc_case(rs):
        rows = [_rle_to_series(r)[:600] for r in rs]
        n = max(len(r) for r in rows)
        rows = [r + [0] * (n - len(r)) for r in rows]
        return rows

    ctx.given("lroo_accessor",
              st.builds(lambda rs, d: {"pixels": acc_case(rs), "dims": d}, st.lists(rle, min_size=1, max_size=3),
                        st.permutations(["y", "x", "time"])),
              ctx.n(60, 800), fn=f_long_acc)

    # 3b. short series through dask with the time axis split into irregular chunks (refused, or the run of the WHOLE series)
    def f_tc(case):
        why = sub_lroo_accessor(case)
        ctx.rec.case("lroo_accessor", case, nontrivial=True, cls="time_chunked:" + ("refused" if why else "answered"))

    tc = st.integers(3, 16).flatmap(lambda n: st.builds(
        lambda px, ch, d: {"pixels": px, "dims": list(d), "tchunks": ch},
        st.lists(st.lists(st.sampled_from([0, 1, 1, 1]), min_size=n, max_size=n), min_size=1, max_size=3),
        st.lists(st.integers(1, 6), min_size=2, max_size=6), st.permutations(["y", "x", "time"])))
    ctx.given("lroo_accessor", tc, ctx.n(40, 500), fn=f_tc)

    # 4. croo: all binary series of length n as pixels x every permutation of stored order, n <= 6
    nmax = ctx.n(5, 7)
    for n in range(1, nmax + 1):
        rows = [list(r) for r in itertools.product((0, 1), repeat=n)]
        cnt = 0
        for perm in itertools.permutations(range(n)):
            axes = ["fancy"] + (["negative_freq", "reversing_slice"] if n > 1 and list(perm) == list(range(n - 1, -1, -1)) else [])
            failed = False
            for axis in axes:
                case = {"pixels": rows, "order": list(perm), "dims": ["time", "y", "x"], "axis": axis}
                try:
                    sub_croo(case)
                except Violation:
                    # find the single failing pixel for a small replay
                    for r in rows:
                        c1 = {"pixels": [r], "order": list(perm), "dims": ["time", "y", "x"], "axis": axis}
                        if not ctx.run_case("croo", c1):
                            break
                    failed = True
                    break
            if failed:
                break
            cnt += 1
            ctx.rec.case("croo", {"pixels": "all %d binary series of length %d" % (len(rows), n), "order": list(perm)},
                         nontrivial=True, cls="enum_perm_len_%d" % n)
        else:
            continue
        break
    else:
        ctx.rec.exhaustive_parts.append("croo: all binary series of length 1..%d x all permutations of stored order" % nmax)

    # 5. croo generated: longer series, random permutations, dims orders
    def croo_strategy():
        return st.integers(1, 60).flatmap(lambda n: st.builds(
            lambda px, order, dims, axis: {"pixels": px, "order": list(order), "dims": list(dims), "axis": axis},
            st.lists(st.lists(st.sampled_from([0, 1, 1, 1]), min_size=n, max_size=n), min_size=1, max_size=3),
            st.one_of(st.permutations(list(range(n))), st.just(list(range(n - 1, -1, -1))), st.just(list(range(n)))),
            st.permutations(["time", "y", "x"]), st.sampled_from(["fancy", "negative_freq", "reversing_slice"])))

    def f_croo(case):
        o = case["order"]
        ctx.rec.case("croo", case, nontrivial=(o != sorted(o)) or any(p[-1] == 1 for p in case["pixels"]),
                     cls=["shuffled" if o != sorted(o) else "sorted"] + (["regular_descending_axis:" + case["axis"]] if len(o) > 1 and o == sorted(o, reverse=True) and case["axis"] != "fancy" else []))
        sub_croo(case)

    ctx.given("croo", croo_strategy(), ctx.n(150, 2500), fn=f_croo)

    # 5a. croo on long records: the current run may be longer than any narrow integer type holds (127 / 255 / 32767 are not limits of
    # the property), for 0/1 cubes stored in narrow integer dtypes as well
    @st.composite
    def croo_long(draw):
        nt = draw(st.sampled_from([130, 200, 256, 257, 300, 520, 1000]))
        pxs = []
        for _ in range(draw(st.integers(1, 2))):
            last = draw(st.sampled_from([127, 128, 129, 255, 256, 257, 300, nt, nt - 1, 1, 0]))
            last = min(last, nt)
            head = nt - last
            runs = []
            while head > 0:
                c = min(head, draw(st.integers(1, 140)))
                runs.append([1 if (len(runs) % 2 == 1) else 0, c])
                head -= c
            if runs and runs[-1][0] == 1:
                runs[-1][0] = 0  # the cell before the final run is a zero, so the final run has exactly `last` members
            if len(runs) >= 2 and runs[-2][0] == 0:
                runs[-2][0] = 1
            pxs.append(runs + ([[1, last]] if last else []))
        return {"pixels": None, "rle": pxs, "rot": draw(st.integers(0, 999)), "rev": draw(st.booleans()), "dims": list(draw(st.permutations(["time", "y", "x"]))),
                "dtype": draw(st.sampled_from(["uint8", "int8", "int16", "int32", "int64", "uint8"]))}

    def f_croo_long(case):
        ctx.rec.case("croo", case, nontrivial=True, cls=["long_record", "dtype:" + case["dtype"]])
        sub_croo(case)

    ctx.given("croo", croo_long(), ctx.n(60, 800), fn=f_croo_long)

    # 5b. big same-shaped rasters processed one after the other; results compared at the end
    def f_al(case):
        ctx.rec.case("aliasing", case, nontrivial=True, cls="pixels>=32768" if case["shape"][0] * case["shape"][1] >= 32768 else "pixels<32768")
        sub_aliasing(case)

    al = st.builds(lambda sh, salts, lazy: {"shape": list(sh), "salts": salts, "lazy": lazy},
                   st.sampled_from([(192, 192, 4), (256, 130, 3), (40, 30, 6), (182, 181, 2), (362, 181, 3)]),
                   st.lists(st.integers(0, 40), min_size=2, max_size=3, unique=True), st.booleans())
    ctx.given("aliasing", al, ctx.n(6, 40), fn=f_al, shrink=False)

    # 6. histories on one array object
    def hist():
        return st.integers(2, 8).flatmap(lambda n: st.builds(
            lambda px, ops: {"nt": n, "pixels": px, "ops": [list(o) for o in ops]},
            st.lists(st.lists(st.sampled_from([0, 1, 1]), min_size=n, max_size=n), min_size=1, max_size=3),
            st.lists(st.one_of(st.tuples(st.just("croo")), st.tuples(st.just("lroo")),
                               st.tuples(st.sampled_from(["set_time", "set_time", "assign_time"]), st.permutations(list(range(n)))),
                               st.tuples(st.just("set_values"), st.integers(0, 2), st.integers(0, 7), st.sampled_from([0, 1]))),
                     min_size=2, max_size=12)))

    def f_h(case):
        kinds = [o[0] for o in case["ops"]]
        ctx.rec.case("history", case, nontrivial=("croo" in kinds or "lroo" in kinds) and ("set_time" in kinds or "set_values" in kinds),
                 cls="ops=%d" % len(kinds))
        sub_history(case)

    ctx.given("history", hist(), ctx.n(300, 5000), fn=f_h)
