"""C13 - compiled kernels compute what their Python source says."""
from __future__ import annotations

import builtins
import importlib
import math
import warnings

import numpy as np
from hypothesis import strategies as st

import hdc.algo  # noqa: F401
from harness import smooth  # noqa: E402
from harness import gens, refs, twins
from harness.core import Violation
from harness.util import call, req, fmt

PID = "C13"
LEVEL = "translation_validation"
RULE = ("Programs are discovered at run time (every CPUDispatcher and lazycompile wrapper defined in hdc.algo.ops.*, 35 expected). For each "
        "program Hypothesis draws in-contract inputs (series n 6..60 with gaps, lambda/p/srange/lc, windows, groups, zones, templates; every "
        "dtype of the gufunc signature list) and the compiled function is compared with its interpreted twin: the same code object run by "
        "CPython with NumPy semantics (Numba types mapped to NumPy dtypes, prange -> range, callees replaced by their twins). Integer inputs "
        "are widened to int64 for the twin (NumPy scalars have fixed width where Numba widens) and compiled(x) == compiled(widen x) is "
        "checked where the signature allows. Floats equal to 1e-9 relative (1e-5 for float32 inputs), integer outputs equal except a unit "
        "where the recorded unrounded value is within 1e-6 of a half, MK flags equal unless |p-0.05|<1e-9. The SciPy special functions "
        "bound into nopython code are compared bit for bit with scipy.special. A case counts as a disagreement check when both sides ran; "
        "non-trivial = every such case; distinct by content hash. "
        " Added after the fourth seeded round: A third of the gufunc cases pass every array argument as a strided view. "
        " Added after the fifth seeded round: Sub-check 'large': inputs of >= 2^20 cells for five programs (compiled vs interpreted on integer data to the last float32 digits; repeated compiled runs agree).")
ASSUME = ["the interpreted twin is the semantics of the source (CPython + NumPy + SciPy)",
          "twin runs that overflow a fixed-width NumPy integer are out of the property's domain and counted (never judged)"]

stats = importlib.import_module("hdc.algo.ops.stats")
acm = importlib.import_module("hdc.algo.ops.autocorr")
PROGS = twins.discover_programs()
SR = np.arange(-2.0, 2.6, 0.5)

_rounded = []


def _pyround(v, nd=None):
    _rounded.append(np.array([v]))
    return builtins.round(v) if nd is None else builtins.round(v, nd)


def T(name):
    return twins.twin(PROGS[name], overrides={"round": _pyround})


def _series(case, dtype="float64", nodata=-1.0):
    y = np.array(case["y"], dtype="float64")
    v = np.array(case["valid"], dtype=bool)
    y = y.copy()
    y[~v] = nodata
    return y.astype(dtype)


def _widen(a):
    a = np.asarray(a)
    return a.astype("int64") if a.dtype.kind in "iu" and a.dtype != np.uint8 else a


# ---- per-program runners: name -> fn(case) -> (compiled_outputs, twin_outputs, extra_checks) -------------------------------------------
LAYOUT = {"mode": "contig"}


def _strided(a):
    """The same values as a view with a non-unit stride along the last axis (every second cell of a poisoned buffer)."""
    if not isinstance(a, np.ndarray) or a.ndim == 0 or a.shape[-1] < 2:
        return a
    # the cells in between hold plausible values (the argument's own, shifted): a loop that ignores the stride computes
    # something different but does not overflow
    other = np.roll(a, 1, axis=-1)
    if a.dtype.kind == "f":
        with np.errstate(all="ignore"):
            other = np.where(np.isfinite(a) & np.isfinite(other), 0.5 * a + 0.5 * other + 0.125, other).astype(a.dtype)
    buf = np.repeat(other, 2, axis=-1)
    v = buf[..., ::2]
    v[...] = a
    return v


def gu(name, ins, outs, twin_ins=None):
    """Run a gufunc program and its twin. outs: list of (shape, dtype)."""
    k = PROGS[name]
    twin_ins = twin_ins or ins
    if LAYOUT["mode"] == "strided":
        # the source indexes its arguments as NumPy arrays, whatever their strides: the compiled loop must do the same
        ins = tuple(_strided(a) for a in ins)
    got = call(name, k, *ins)
    got = got if isinstance(got, tuple) else (got,)
    o = [np.zeros(s, dtype=d) for s, d in outs]
    T(name)(*(twin_ins or ins), *o)
    return tuple(np.asarray(g) for g in got), tuple(x if x.shape != (1,) else x[0] for x in o)


def nj(name, args, twin_args=None):
    got = call(name, PROGS[name], *args)
    tw = T(name)(*(twin_args or args))
    got = got if isinstance(got, tuple) else (got,)
    tw = tw if isinstance(tw, tuple) else (tw,)
    return tuple(np.asarray(g) for g in got), tuple(np.asarray(t) for t in tw)


def _nd(case):
    """The nodata value handed to a smoother gufunc (a float64 argument): usually -1; sometimes a number the int16 data cannot hold
    whose truncation (x.5) or wrap-around (x + 65536) IS a valid cell's value - by the source every such cell stays valid."""
    kind = case.get("ndk", "plain")
    vi = [i for i, ok in enumerate(case["valid"]) if ok]
    if kind == "plain" or not vi:
        return -1.0, -1.0
    base = float(case["y"][vi[int(case.get("ndi", 0)) % len(vi)]])
    return (base + 0.5, base) if kind == "frac" else (base + 65536.0, base)


def _selection_tie(name, case, res, y_eff, valid_eff, grid, p, kind):
    """Compiled code and interpreter evaluate the same criterion with different rounding (fused multiply-add, Numba's arange): where two
    candidates are tied to within that noise they may select different ones. That is not a disagreement about what the source says
    (C04-C06 speak of 'floating-point ties'), so such inputs are counted and discarded; an untied mismatch stays a violation."""
    got, tw = res
    lg, lt = float(np.asarray(got[1]).ravel()[0]), float(np.asarray(tw[1]).ravel()[0])
    if not (lg > 0 and lt > 0) or abs(lg - lt) <= 1e-9 * max(lg, lt):
        return res
    from props import c04

    grid = np.asarray(grid, dtype="float64")
    yv, vv = np.asarray(y_eff, dtype="float64"), np.asarray(valid_eff, dtype=bool)
    if kind == "vcurve":
        cand, status = c04.near_min_set(np.where(vv, yv, 0.0), vv, grid, p)
        pts = (grid[:-1] + grid[1:]) / 2
    elif kind == "gcv":
        with np.errstate(all="ignore"):
            sa, _ = refs.gcv_scores(np.where(vv, yv, 0.0), vv.astype(float), grid, solver=refs.banded_solve)
            sb, _ = refs.gcv_scores(np.where(vv, yv, 0.0), vv.astype(float), grid, solver=refs.lu_solve)
        status, cand, pts = None, set(), grid
        if not (np.isfinite(sa).all() and np.isfinite(sb).all()):
            status = "nonfinite"
        else:
            smin = float(sa.min())
            tol = 1e-7 * abs(smin) + 50 * float(np.max(np.abs(sa - sb))) + 1e-300
            if tol > 0.05 * float(sa.max() - smin):
                status = "unresolvable"
            cand = {int(i) for i in np.nonzero(sa <= smin + tol)[0]}
    else:  # robust GCV: no closed criterion to consult; identical bands mean the fit does not depend on the candidate
        if np.array_equal(np.asarray(got[0]), np.asarray(tw[0])):
            raise Fragile("selection_tie_identical_bands")
        return res
    ks = [int(np.argmin(np.abs(pts - math.log10(v)))) for v in (lg, lt)]
    if status or all(k in cand for k in ks):
        raise Fragile("selection_tie_between_compiled_and_interpreted")
    return res


def r_smoother(name):
    def run(case):
        gufunc = name.split(".")[1] in ("ws2dgu", "ws2dpgu", "ws2doptv", "ws2doptvp", "ws2doptvplc", "ws2dwcv", "ws2dwcvp")
        nd, ndi = _nd(case) if gufunc else (-1.0, -1.0)
        y = _series(case, nodata=nd)
        n = y.size
        p, lam = case["p"], 10.0 ** case["loglam"]
        if name == "ws2dgu.ws2dgu":
            return gu(name, (y, lam, nd), [(n, "int16")])
        if name == "ws2dpgu.ws2dpgu":
            return gu(name, (y, lam, nd, p), [(n, "int16")])
        vv = np.array(case["valid"], dtype=bool)
        if name == "ws2doptv.ws2doptv":
            return _selection_tie(name, case, gu(name, (y, nd, SR), [(n, "int16"), (1, "f8")]), y, vv, SR, None, "vcurve")
        if name == "ws2doptvp.ws2doptvp":
            return _selection_tie(name, case, gu(name, (y, nd, p, SR), [(n, "int16"), (1, "f8")]), y, vv, SR, p, "vcurve")
        if name == "ws2doptvplc.ws2doptvplc":
            yi = _series(case, nodata=ndi).astype("int16")  # int16 cells: the missing ones hold what nd truncates / wraps to
            v_eff = vv if nd == -1.0 else np.ones(n, dtype=bool)  # an off-domain nodata marks no int16 cell: every cell is an observation
            grid = smooth.LC_GRID_HI if case["lc"] > 0.5 else smooth.LC_GRID_LO
            return _selection_tie(name, case, gu(name, (yi, nd, p, case["lc"]), [(n, "int16"), (1, "f8")], twin_ins=(_widen(yi), nd, p, case["lc"])),
                                  yi, v_eff, grid, p, "vcurve")
        if name == "ws2dwcv.ws2dwcv":
            return _selection_tie(name, case, gu(name, (y, nd, SR, case["robust"]), [(n, "int16"), (1, "f8")]), y, vv, SR, None, "robust" if case["robust"] else "gcv")
        if name == "ws2dwcvp.ws2dwcvp":
            return _selection_tie(name, case, gu(name, (y, nd, p, SR, case["robust"]), [(n, "int16"), (1, "f8")]), y, vv, SR, p, "robust" if case["robust"] else "gcv")
        w = np.array(case["valid"], dtype="float64")
        yz = np.where(w > 0, y, 0.0)
        if name == "ws2d.ws2d":
            return nj(name, (yz, lam, w))
        if name == "ws2doptvp._ws2doptvp":
            return nj(name, (yz, w, p, SR))
        if name == "ws2dwcvp._ws2dwcvp":
            return nj(name, (yz, w, p, SR, case["robust"]))
        if name == "ws2doptvplc.ws2doptvplc_tyx":
            yi = y.astype("int16")
            cube = np.ascontiguousarray(np.stack([yi, yi[::-1], np.roll(yi, 3), yi, np.roll(yi, 7), np.roll(yi[::-1], 2)], 1).reshape(n, 3, 2))
            got, tw = nj(name, (cube, p, -1), twin_args=(_widen(cube), p, -1))
            # the kernel is parallel (prange over rows): the interpreted source is sequential, so every repeated compiled
            # run must reproduce the first one, too
            for _ in range(4):
                again = call(name, PROGS[name], cube, p, -1)
                if not all(np.array_equal(a, b) for a, b in zip(got, again)):
                    raise Violation("%s: repeated compiled runs on the same input differ (the interpreted source is deterministic)" % name,
                                    name + " compiled run not reproducible")
            return got, tw
        raise KeyError(name)
    return run


class Fragile(Exception):
    """The input sits exactly on a branch the source decides by comparing a float with a constant (discarded and counted)."""


def _s_is_zero(cal, nd):
    """All positive calibration values equal: s = log(mean) - mean(log) is exactly 0, so 's <= 0' is decided by rounding noise
    (which differs between the compiled float32 / float64 code and the interpreter). What the library must do there is C08's business."""
    pos = cal[(cal != nd) & (cal > 0)]
    return pos.size >= 1 and bool(np.all(pos == pos[0]))


def r_stats(name):
    def run(case):
        dt = case["dtype"]
        x = np.array(case["rain"], dtype="float64").astype(dt)
        n = x.size
        nd = -9999
        xi = x.copy()
        for q in case["nd_pos"]:
            xi[q % n] = nd
        c0, c1 = 1, n - 1
        if name == "stats.brentq":
            s = case["s"]
            a = (3 - s + math.sqrt((s - 3) ** 2 + 24 * s)) / (12 * s)
            return nj(name, (a * 0.6, a * 1.4, s))
        if name == "stats.gammafit":
            if _s_is_zero(xi, nd):
                raise Fragile("gamma_s_exactly_zero")
            return nj(name, (xi[xi > 0],), twin_args=(_widen(xi[xi > 0]),))
        if name == "stats.gammastd":
            if _s_is_zero(xi[c0:c1], nd):
                raise Fragile("gamma_s_exactly_zero")
            return nj(name, (xi, nd, c0, c1), twin_args=(_widen(xi), nd, c0, c1))
        if name == "stats.gammastd_yxt":
            if _s_is_zero(xi[c0:c1], nd) or _s_is_zero(xi[::-1][c0:c1], nd):
                raise Fragile("gamma_s_exactly_zero")
            cube = np.stack([xi, xi[::-1]]).reshape(2, 1, n)
            return nj(name, (cube, nd, c0, c1), twin_args=(_widen(cube), nd, c0, c1))
        if name == "stats.gammastd_grp":
            g = np.array([t % 2 for t in range(n)], dtype="int16")
            ci = np.array([[0, n // 2 - 1], [1, n // 2]], dtype="int16")
            # several pixels per call, from wide to low variability (high gamma shape: the index is most sensitive to the
            # precision of the fit there); the gufunc broadcasts over rows, the interpreted source is run row by row
            rows = []
            # (float32 input: single-precision logarithms in compiled code are amplified by such ill-conditioned fits far beyond
            #  "single-precision accuracy" of the result - that regime is C07's interval oracle, so float32 keeps ordinary rows only)
            specs = [(0, 1), (500, 7), (2000, 31), (5000, 101), (9000, 13), (300, 3), (12000, 257), (40, 1)] if dt == "int16" else [(0, 1), (3, 1)]
            for j, (base, spread) in enumerate(specs):
                r = (np.abs(x.astype(np.float64)) % spread if j else np.abs(x.astype(np.float64))) + base
                r = np.roll(r, j).astype(dt)
                r[xi == nd] = nd
                rows.append(r)
            cube = np.stack(rows)
            got = call(name, PROGS[name], cube, g, 2, float(nd), ci)
            tw = np.zeros(cube.shape, dtype="int16")
            for j in range(cube.shape[0]):
                o = np.zeros(n, dtype="int16")
                T(name)(_widen(cube[j]), g, 2, float(nd), ci, o)
                tw[j] = o
                for grp in (0, 1):
                    sub = cube[j][g == grp]
                    if _s_is_zero(sub[ci[grp, 0]:ci[grp, 1]], nd):
                        tw[j][g == grp] = np.asarray(got)[j][g == grp]  # branch decided by rounding noise: not compared
            return (np.asarray(got),), (tw,)
        xm = np.array(case["mk"], dtype="float64").astype(dt)
        if case.get("mk_nan") and xm.dtype.kind == "f" and name in ("stats.mann_kendall_trend_1d", "stats.mann_kendall_trend_yxt",
                                                                     "stats._mann_kendall_trend_gu", "stats._mann_kendall_trend_gu_nd"):
            # float series may hold NaN cells: the source has a definite (NumPy) meaning for them, which the compiled code must share
            for q in case["nd_pos"]:
                xm[q % n] = np.nan
        if name == "stats.mk_score":
            return nj(name, (xm,), twin_args=(_widen(xm),))
        if name == "stats.mk_variance_s":
            return nj(name, (xm,), twin_args=(_widen(xm),))
        if name == "stats.mk_z_score":
            return nj(name, (case["mk_s"], float(case["mk_v"])))
        if name == "stats.mk_p_value":
            return nj(name, (case["mk_z"],))
        if name == "stats.mk_sens_slope":
            return nj(name, (xm,), twin_args=(_widen(xm),))
        if name == "stats.mann_kendall_trend_1d":
            return nj(name, (xm,), twin_args=(_widen(xm),))
        if name == "stats.mann_kendall_trend_yxt":
            cube = np.stack([xm, xm[::-1]]).reshape(1, 2, -1)
            return nj(name, (cube,), twin_args=(_widen(cube),))
        f4 = [((1,), "f4")] * 3 + [((1,), "i1")]
        if name == "stats._mann_kendall_trend_gu":
            return gu(name, (xm,), f4, twin_ins=(_widen(xm),))
        if name == "stats._mann_kendall_trend_gu_nd":
            return gu(name, (xm, float(nd)), f4, twin_ins=(_widen(xm), float(nd)))
        if name == "stats.mean_grp":
            g = np.array(case["groups"], dtype="int16")
            k = int(g.max()) + 1
            return gu(name, (xi, g, k, float(nd)), [(n, "f4")], twin_ins=(_widen(xi), g, k, float(nd)))
        if name == "stats.rolling_sum":
            w = case["window"]
            return gu(name, (xi, w, float(nd)), [(n, "f4")], twin_ins=(_widen(xi), int(w), float(nd)))
        raise KeyError(name)
    return run


def r_misc(name):
    def run(case):
        dt = case["dtype"]
        y = _series(case, nodata=-1.0)
        n = y.size
        if name.startswith("autocorr."):
            if dt.startswith("float"):
                a = y.astype(dt)
                a[~np.array(case["valid"], dtype=bool)] = np.nan
                nd = None
            else:
                a = y.astype(dt)
                nd = -1
            if name == "autocorr.autocorr_1d_float":
                a = a.astype("float64") if a.dtype.kind != "f" else a
                return nj(name, (a,))
            if name == "autocorr.autocorr_1d_int":
                a = y.astype("int16" if not dt.startswith("int") else dt)
                return nj(name, (a, -1), twin_args=(_widen(a), -1))
            if name == "autocorr.autocorr_1d":
                return nj(name, (a, nd) if nd is not None else (a,), twin_args=(_widen(a), nd) if nd is not None else (a,))
            cube = np.stack([a, a[::-1], np.roll(a, 2), a]).reshape(2, 2, n)
            if name == "autocorr.autocorr":
                return nj(name, (cube, nd), twin_args=(_widen(cube), nd))
            tyx = np.ascontiguousarray(cube.transpose(2, 0, 1))
            return nj(name, (tyx, nd), twin_args=(_widen(tyx), nd))
        if name == "lroo.lroo":
            b = (y > np.median(y)).astype("uint8")
            return gu(name, (b,), [((1,), "uint32")])
        if name == "tinterpolate.tinterpolate":
            x = y.astype("int16")
            gap = case["gap"]
            m = gap * (n - 1) + 1 + case["tail"]
            tm = np.zeros(m)
            tm[np.arange(n) * gap] = 1
            lab = (np.arange(m) // case["per"]).astype("int32")
            nper = int(lab.max()) + 1
            return gu(name, (x, tm, lab, np.zeros(nper, "u1")), [(nper, "int16")], twin_ins=(_widen(x), tm, lab, np.zeros(nper, "u1")))
        if name == "zonal.do_mean":
            a = y.astype(dt)
            T_, Y, X = 1, 2, n // 2
            pix = a[:2 * X].reshape(T_, Y, X)
            z = (np.arange(2 * X) % 3).astype("int16").reshape(Y, X)
            odt = np.float32 if case["robust"] else np.float64
            return nj(name, (pix, z, 3, -1, 2 if case["tail"] % 2 else -1, odt), twin_args=(_widen(pix), z, 3, -1, 2 if case["tail"] % 2 else -1, odt))
        raise KeyError(name)
    return run


RUNNERS = {}
for _n in PROGS:
    mod = _n.split(".")[0]
    if mod.startswith("ws2d"):
        RUNNERS[_n] = r_smoother(_n)
    elif mod == "stats":
        RUNNERS[_n] = r_stats(_n)
    else:
        RUNNERS[_n] = r_misc(_n)

DTYPES = {"stats.gammafit": ["int16", "float32", "float64"], "stats.gammastd": ["int16", "float32", "float64"], "stats.gammastd_yxt": ["int16", "float32", "float64"],
          "stats.gammastd_grp": ["int16", "float32"], "stats.mean_grp": ["float32", "int16", "int32", "int64"], "stats.rolling_sum": ["float32", "int16", "int64"],
          "stats._mann_kendall_trend_gu": ["int16", "float32"], "stats._mann_kendall_trend_gu_nd": ["int16", "float32"],
          "stats.mann_kendall_trend_1d": ["int16", "float32", "float64"], "stats.mann_kendall_trend_yxt": ["int16", "float32"],
          "stats.mk_score": ["int16", "float32", "float64"], "stats.mk_variance_s": ["int16", "float32", "float64"], "stats.mk_sens_slope": ["int16", "float32", "float64"],
          "autocorr.autocorr": ["int16", "int32", "float32", "float64"], "autocorr.autocorr_tyx": ["int16", "int32", "float32", "float64"],
          "autocorr.autocorr_1d": ["int16", "int64", "float32", "float64"], "autocorr.autocorr_1d_int": ["int16", "int32", "int64"],
          "autocorr.autocorr_1d_float": ["float32", "float64"], "zonal.do_mean": ["int16", "float32", "float64"]}


def _flat(x):
    return np.atleast_1d(np.asarray(x))


def compare(name, case, got, tw, rounded):
    f32 = case["dtype"] == "float32" or any(np.asarray(g).dtype == np.float32 for g in got)
    rtol = 1e-5 if f32 else 1e-9
    req(len(got) == len(tw), "%s: %d outputs vs %d from the interpreted source" % (name, len(got), len(tw)), name + " arity")
    lam_mismatch = False
    for i, (g, t) in enumerate(zip(got, tw)):
        g, t = _flat(g), _flat(t)
        req(g.shape == t.shape, "%s: output %d shape %s vs %s" % (name, i, g.shape, t.shape), name + " shape")
        if g.dtype.kind in "iub" and t.dtype.kind in "iub":
            if name.startswith("stats.") and "mann_kendall" in name and i == 3:
                # trend flag: decided together with p below
                continue
            d = g.astype(np.int64) - t.astype(np.int64)
            if d.any():
                req(int(np.max(np.abs(d))) <= 1, "%s: integer output %d differs: compiled %s, interpreted %s" % (name, i, fmt(g, 16), fmt(t, 16)), name + " integer output")
                near_half = False
                for r in rounded:
                    r = np.asarray(r, dtype=float).ravel()
                    if r.size == g.size:
                        fr = np.abs(r - np.floor(r) - 0.5)
                        if (fr[d.ravel() != 0] <= 1e-6).all():
                            near_half = True
                    elif r.size == 1 and abs(float(r[0]) - math.floor(float(r[0])) - 0.5) <= 1e-6:
                        near_half = True
                req(near_half or lam_mismatch, "%s: integer output %d differs by a unit away from a rounding tie: compiled %s, interpreted %s" % (
                    name, i, fmt(g, 16), fmt(t, 16)), name + " integer output")
            continue
        gf, tf = g.astype(np.float64), t.astype(np.float64)
        ok = np.isclose(gf, tf, rtol=rtol, atol=1e-12 if not f32 else 1e-7, equal_nan=True) | (np.isinf(gf) & np.isinf(tf) & (np.sign(gf) == np.sign(tf)))
        req(bool(ok.all()), "%s (dtype %s): output %d differs: compiled %s, interpreted source %s" % (name, case["dtype"], i, fmt(gf, 12), fmt(tf, 12)),
            name + " float output")
    if name.startswith("stats.") and "mann_kendall" in name and len(got) == 4:
        p = float(_flat(got[1])[0])
        for gi, ti in zip(_flat(got[3]).ravel(), _flat(tw[3]).ravel()):
            req(int(gi) == int(ti) or abs(p - 0.05) < 1e-9, "%s: trend flag %d vs %d (p=%r)" % (name, int(gi), int(ti), p), name + " trend flag")


def sub_program(case):
    name = case["prog"]
    run = RUNNERS[name]
    LAYOUT["mode"] = case.get("layout", "contig")
    twins.PROXY.rounded.clear()
    _rounded.clear()
    try:
        with warnings.catch_warnings():
            warnings.simplefilter("ignore")
            with np.errstate(over="raise", invalid="ignore", divide="ignore"):
                got, tw = run(case)
    except FloatingPointError:
        return "interpreter_overflow"
    except Fragile as e:
        return str(e)
    except ValueError as e:
        if "math domain error" in str(e):
            # CPython's math.log(0) raises where compiled code yields -inf (an exactly interpolating fit): the interpreter cannot
            # express what the source computes there - outside "in-domain inputs", counted
            return "interpreter_math_domain_error"
        raise
    except KeyError as e:
        if e.args and e.args[0] == name:
            # a program this check has no input generator for (e.g. a helper added later): counted in the evidence, not judged
            return "no_generator_for_program"
        raise
    compare(name, case, got, tw, list(twins.PROXY.rounded) + list(_rounded))
    # integer width: compiled(x) == compiled(widen(x)) where the program takes any integer width
    if case["dtype"] in ("int16", "int32") and name in WIDENABLE:
        c2 = dict(case, dtype="int64")
        with warnings.catch_warnings():
            warnings.simplefilter("ignore")
            with np.errstate(all="ignore"):
                got2, _ = RUNNERS[name](c2)
        for g, h in zip(got, got2):
            req(np.array_equal(_flat(g), _flat(h), equal_nan=_flat(g).dtype.kind == "f"), "%s: compiled result depends on the integer width: %s input %s, int64 input %s" % (
                name, case["dtype"], fmt(_flat(g), 12), fmt(_flat(h), 12)), name + " integer width")
    return None


WIDENABLE = {"stats.mean_grp", "stats.rolling_sum", "autocorr.autocorr_1d_int", "autocorr.autocorr_1d", "stats.mk_score", "stats.mk_variance_s"}


def sub_special(case):
    """SciPy special functions bound into nopython code vs scipy.special, bit for bit."""
    import scipy.special as sc
    a, x, pz = float(case["a"]), float(case["x"]), float(case["p"])
    got = call("bound special functions", _bound(), a, x, pz)
    want = (float(sc.digamma(a)), float(sc.gammainc(a, x)), float(sc.ndtri(pz)))
    for nm, g, w in zip(("digamma", "gammainc", "ndtri"), got, want):
        req(g == w or (math.isnan(g) and math.isnan(w)), "scipy.special.%s bound into compiled code returns %r, scipy.special returns %r (a=%r, x=%r, p=%r)" % (
            nm, g, w, a, x, pz), "special function binding " + nm)


_BOUND = []


def _bound():
    if not _BOUND:
        import numba
        import scipy.special as sc

        @numba.njit
        def f(a, x, p):
            return sc.digamma(a), sc.gammainc(a, x), sc.ndtri(p)

        _BOUND.append(f)
    return _BOUND[0]


def sub_large(case):
    """Inputs big enough to pass any size gate (>= 2^20 cells): compiled vs interpreted source on integer data, where the interpreter's
    arithmetic is exact (widened to int64) and every compiled accumulator of the current source is float64 / int64."""
    name, n, salt = case["prog"], int(case["n"]), int(case["salt"])
    t = np.arange(n, dtype=np.int64)
    vals = ((t * 7919 + salt * 104729 + (t // 97) * 31) % 2001 + 100).astype("int16")
    nd = -9999
    vals[(t * 13 + salt) % 41 == 0] = nd
    twins.PROXY.rounded.clear()
    _rounded.clear()
    LAYOUT["mode"] = "contig"
    with warnings.catch_warnings():
        warnings.simplefilter("ignore")
        if name == "zonal.do_mean":
            T_ = 3
            side = int(math.isqrt(n // T_))
            pix = vals[:T_ * side * side].reshape(T_, side, side)
            z = ((np.arange(side * side) // 5 + salt) % 4).astype("int16").reshape(side, side)
            got, tw = nj(name, (pix, z, 4, nd, -1, np.float32), twin_args=(_widen(pix), z, 4, nd, -1, np.float32))
            for _ in range(2):
                again = call(name, PROGS[name], pix, z, 4, nd, -1, np.float32)
                req(np.array_equal(np.asarray(again), got[0], equal_nan=True), "%s: repeated compiled runs on a %d-cell input differ" % (name, pix.size),
                    name + " compiled run not reproducible")
        elif name == "stats.mean_grp":
            g = ((t // 3 + salt) % 2).astype("int16")
            got, tw = gu(name, (vals, g, 2, float(nd)), [(n, "f4")], twin_ins=(_widen(vals), g, 2, float(nd)))
        elif name == "stats.rolling_sum" and case.get("f32"):
            # float32 cells that are not exactly representable, a window almost as long as the series: the source adds the cells one
            # after the other into a float32 cell, and so must the compiled code (the order of a float32 summation is part of what the
            # source says - another order differs by 1e-4 .. 1e-2 relative at this length)
            fv = ((vals.astype(np.int64) % 977) * 0.1).astype("float32")
            fv[vals == nd] = np.float32(nd)
            got, tw = gu(name, (fv, n - 2, float(nd)), [(n, "f4")])
        elif name == "stats.rolling_sum":
            got, tw = gu(name, (vals, 5, float(nd)), [(n, "f4")], twin_ins=(_widen(vals), 5, float(nd)))
        elif name == "lroo.lroo":
            bits = (vals % 3 != 0).astype("uint8")
            got, tw = gu(name, (bits,), [(1, "uint32")])
        elif name == "autocorr.autocorr_1d_int":
            got, tw = nj(name, (vals, nd), twin_args=(_widen(vals), nd))
        else:
            raise KeyError(name)
    # integer data, float64 / int64 accumulators: the compiled result must match the interpreter to the last float32 digits
    for i, (g, tv) in enumerate(zip(got, tw)):
        g, tv = _flat(g), _flat(tv)
        req(g.shape == tv.shape, "%s: output %d shape %s vs %s" % (name, i, g.shape, tv.shape), name + " shape")
        if g.dtype.kind in "iub":
            ok = g.astype(np.int64) == tv.astype(np.int64)
        else:
            gf, tf = g.astype(np.float64), tv.astype(np.float64)
            tol = 2 * np.spacing(np.abs(tf).astype(np.float32)).astype(np.float64) if g.dtype == np.float32 else 1e-12 * np.maximum(1.0, np.abs(tf))
            ok = (np.abs(gf - tf) <= tol) | (np.isnan(gf) & np.isnan(tf))
        if not ok.all():
            q = int(np.nonzero(~ok.ravel())[0][0])
            raise Violation("%s on %d cells: output %d differs from the interpreted source at %d of %d elements (first at %d: compiled %r, interpreted %r)" % (
                name, n, i, int((~ok).sum()), ok.size, q, g.ravel()[q].item(), tv.ravel()[q].item()), name + " large input")


SUBS = {"program": sub_program, "special": sub_special, "large": sub_large}


@st.composite
def pcase(draw, name):
    n = draw(st.integers(8, 48))
    s = draw(gens.series(n=n, classes=["seasonal", "walk", "iid", "step"], vmax=3000))
    y = [abs(v) + 5 for v in s["y"]]
    g = draw(gens.gap_mask(n, classes=["none", "isolated", "runs", "leading", "trailing"], min_valid=6))
    k = draw(st.integers(1, 4))
    base = list(range(k)) + [draw(st.integers(0, k - 1)) for _ in range(n - k)]
    tie = draw(st.booleans())
    mk = draw(st.lists(st.integers(-40, 40) if tie else st.integers(-9000, 9000), min_size=n, max_size=n))
    case = {"prog": name, "dtype": draw(st.sampled_from(DTYPES.get(name, ["float64"]))), "y": y, "valid": g["valid"], "p": draw(gens.pvals),
            "loglam": draw(gens.loglam(-3.0, 4.0)), "lc": draw(st.sampled_from([0.2, 0.7, 0.5, float("nan")])), "robust": draw(st.booleans()),
            "rain": [0 if draw(st.integers(0, 9)) == 0 else draw(st.integers(1, 3000)) for _ in range(n)], "nd_pos": draw(st.lists(st.integers(0, n - 1), max_size=2)),
            "mk": mk, "mk_s": draw(st.integers(-50, 50)), "mk_v": draw(st.integers(1, 4000)), "mk_z": draw(st.floats(-6, 6)),
            "s": 10 ** draw(st.floats(-4, 0.5)), "groups": list(draw(st.permutations(base))), "window": draw(st.integers(1, n)),
            "gap": draw(st.sampled_from([1, 5, 10])), "tail": draw(st.integers(0, 6)), "per": draw(st.sampled_from([1, 7, 10]))}
    if draw(st.integers(0, 2)) == 0:
        case["layout"] = "strided"
    if draw(st.integers(0, 2)) == 0:
        case["mk_nan"] = True
    if draw(st.integers(0, 2)) == 0:
        case["ndk"], case["ndi"] = draw(st.sampled_from(["frac", "wrap"])), draw(st.integers(0, 47))
    return case


def run(ctx):
    rec = ctx.rec
    names = sorted(PROGS)
    rec.extra["programs"] = len(names)
    rec.extra["program_names"] = names
    rec.extra["programs_without_generator"] = [n for n in names if n not in RUNNERS]
    checked = {"n": 0}
    per = ctx.n(12, 150)
    for name in names:
        def f(case, name=name):
            why = sub_program(case)
            if why:
                rec.discard("program", why)
            else:
                checked["n"] += 1
            rec.case("program", case, nontrivial=why is None, cls=["prog:" + name, "dtype:" + case["dtype"], "layout:" + case.get("layout", "contig")] + (["offdomain_nodata"] if case.get("ndk") and name.split(".")[1] in ("ws2dgu", "ws2dpgu", "ws2doptv", "ws2doptvp", "ws2doptvplc", "ws2dwcv", "ws2dwcvp") else []))
        ctx.given("program", pcase(name), per, fn=f, shrink=False)
    req_n = len(names)
    if req_n != 35:
        print("note: %d programs discovered (the property counts 35)" % req_n)

    # inputs beyond any plausible size gate (>= 2^20 cells), one or two per program whose interpreted run is affordable
    larges = [("zonal.do_mean", 3 * 600 * 600), ("stats.mean_grp", 2 ** 20 + 4099), ("stats.rolling_sum", 2 ** 20 + 7), ("lroo.lroo", 2 ** 21), ("autocorr.autocorr_1d_int", 2 ** 20 + 1)]
    for k in range(ctx.n(1, 4)):
        for name, n in larges:
            if name not in PROGS:
                continue
            case = {"prog": name, "n": n + 1009 * k, "salt": ctx.seed * 7 + k}
            rec.case("large", case, nontrivial=True, cls="large:" + name)
            checked["n"] += 1
            if not ctx.run_case("large", case):
                return
        if "stats.rolling_sum" in PROGS:
            case = {"prog": "stats.rolling_sum", "n": 60000 + 1009 * k, "salt": ctx.seed * 7 + k, "f32": True}
            rec.case("large", case, nontrivial=True, cls="large:stats.rolling_sum/float32/long_window")
            checked["n"] += 1
            if not ctx.run_case("large", case):
                return

    def f_s(case):
        rec.case("special", case, nontrivial=True, cls="special")
        checked["n"] += 1
        sub_special(case)

    sp = st.builds(lambda a, x, p: {"a": a, "x": x, "p": p}, st.one_of(st.floats(1e-3, 1e4), st.floats(0.05, 500)),
                   st.one_of(st.floats(0, 1e5), st.floats(0, 50)), st.one_of(st.floats(0, 1), st.floats(1e-300, 1e-10), st.floats(0.99, 1),
                             st.sampled_from([1.0 - 2.0 ** -53, 1.0 - 2.0 ** -52, 1.0 - 2.0 ** -51, 2.0 ** -1074, 2.0 ** -1022, 0.5, 0.0, 1.0,
                                              0.5 + 2.0 ** -53, 0.5 - 2.0 ** -54])))
    ctx.given("special", sp, ctx.n(1500, 20000), fn=f_s)
    rec.extra["disagreements_checked"] = checked["n"]
