"""C15 - lag-1 autocorrelation is a Pearson correlation with mean-filled gaps."""
from __future__ import annotations

import sys

import numpy as np
import pandas as pd
import xarray as xr
from hypothesis import strategies as st, target

import hdc.algo  # noqa: F401
from hdc.algo import ops
from harness import gens, refs
from harness.util import call, req, fmt

PID = "C15"
LEVEL = "exploration"
RULE = ("Hypothesis draws series (10 classes incl. constant / few values, n 3..900) x gap pattern (random, contiguous "
        "outages up to 90 %, leading/trailing, alternating, all-but-k) as int16+nodata and float32/float64+NaN (float classes "
        "also with non-integer values), positive affine maps a*x+b staying in int16. Oracles: independent mean-filled "
        "Pearson model to 1e-6; |r| <= 1+1e-9; 0 when no valid pair or no variance; r(a*x+b) == r(x) to 1e-6; integer/nodata "
        "== float/NaN encodings to 1e-9; autocorr (y,x,t) == autocorr_tyx == accessor in both layouts == float32 of the 1-d "
        "value. Non-trivial: at least one missing cell and >= 1 valid pair and non-zero variance; distinct by content hash. "
        " Added after the fourth seeded round: Sub-check 'history': one array object queried repeatedly while its nodata attribute and cells are edited in place and other same-shaped cubes / equal dask blocks are processed; earlier results are re-compared at the end. "
        " Added after the sixth seeded round: series class 'narrow band on a high level' (a few counts of variation at |level| 12000..32000) and pure level shifts of 15000..30000 in the affine relation.")
ASSUME = ["numpy float64 arithmetic for the reference model"]

ac1d = ops.autocorr_1d


def _arr(case):
    x = np.array(case["x"], dtype="float64")
    valid = np.array(case["valid"], dtype=bool)
    return x, valid


def _run_int(x, valid, nodata, dtype="int16"):
    a = x.astype(dtype)
    a[~valid] = nodata
    return float(call("autocorr_1d(int)", ac1d, a, nodata))


def _run_float(x, valid, dtype):
    a = x.astype(dtype)
    a[~valid] = np.nan
    return float(call("autocorr_1d(float)", ac1d, a))


def sub_ref(case):
    x, valid = _arr(case)
    enc = case["enc"]
    if enc == "int16":
        r = _run_int(x, valid, int(case["nodata"]))
        xs = x
    else:
        r = _run_float(x, valid, enc)
        xs = x.astype(enc).astype("float64")
    want = refs.autocorr(xs, valid)
    req(np.isfinite(r), "autocorr_1d returned %r (n=%d, %d valid)" % (r, x.size, int(valid.sum())), "autocorr not finite")
    # Single-pass sums lose about u * sum(x^2)/sum((x-mean)^2) of relative accuracy. Integer data up to 1e4 over <= 900
    # steps are summed exactly, so this only matters for non-integral float data; there the 1e-6 claim is decided
    # where the conditioning leaves room for it, and ill-conditioned cases are counted, not judged (DESIGN C15).
    slack = 0.0
    if not case.get("integral", True):
        # conditioning of each lagged vector separately (X = x[:-1], Y = x[1:]): the variance of a vector whose valid cells
        # nearly coincide is a difference of nearly equal sums even when the whole series varies a lot
        for vec, ok in ((xs[:-1], valid[:-1]), (xs[1:], valid[1:])):
            v = vec[ok]
            if v.size:
                ss = float(np.sum((v - v.mean()) ** 2))
                slack = max(slack, 200 * refs.U * (float(np.sum(v * v)) / ss) if ss > 0 else np.inf)
    desc = "(n=%d, %d valid, enc=%s, x=%s)" % (x.size, int(valid.sum()), enc, fmt(np.where(valid, x, np.nan), 16))
    if slack > 1e-7:
        req(abs(r) <= 1.5, "autocorr_1d = %.9g far outside [-1,1] %s" % (r, desc), "autocorr out of range")
        return None
    # slack is the a-priori relative rounding error of the single-pass sums for this input (0 for exactly summable integer data)
    req(abs(r) <= 1 + 1e-9 + 100 * slack, "autocorr_1d = %.12g outside [-1,1] %s" % (r, desc), "autocorr out of range")
    tol = (1e-6 if enc != "float32" or case.get("integral", True) else 1e-5) + 100 * slack
    req(abs(r - want) <= tol, "autocorr_1d = %.9g, mean-filled Pearson reference = %.9g %s" % (r, want, desc),
        "autocorr differs from reference")
    return r


def sub_affine(case):
    x, valid = _arr(case)
    a, b = case["a"], case["b"]
    nd = int(case["nodata"])
    r0 = _run_int(x, valid, nd)
    r1 = _run_int(a * x + b, valid, nd)
    req(abs(r0 - r1) <= 1e-6, "autocorr changes under x -> %d*x+%d: %.9g vs %.9g (n=%d, %d valid)" % (a, b, r0, r1, x.size, int(valid.sum())),
        "affine invariance")


def sub_encoding(case):
    x, valid = _arr(case)
    nd = int(case["nodata"])
    ri = _run_int(x, valid, nd)
    rf = _run_float(x, valid, "float64")
    rf32 = _run_float(x, valid, "float32")
    r32i = _run_int(x, valid, nd, "int32")
    req(abs(ri - rf) <= 1e-9 and abs(ri - rf32) <= 1e-9 and abs(ri - r32i) <= 1e-9,
        "encodings disagree: int16/nodata %.12g, int32/nodata %.12g, float64/NaN %.12g, float32/NaN %.12g (x=%s)" % (
            ri, r32i, rf, rf32, fmt(np.where(valid, x, np.nan), 16)), "encoding dependence")


def sub_layout(case):
    pix = np.array(case["pixels"], dtype="float64")
    vm = np.array(case["valid"], dtype=bool)
    ny, nx = case["shape"]
    nt = pix.shape[1]
    enc = case["enc"]
    if enc == "int16":
        nd = int(case["nodata"])
        a = pix.astype("int16")
        a[a == nd] = nd + 1 if nd < 32767 else nd - 1  # a valid cell never equals the marker (the marker may be 0)
        a[~vm] = nd
        want = np.array([np.float32(ac1d(a[k], nd)) for k in range(a.shape[0])]).reshape(ny, nx)
        attrs = {"nodata": nd}
    else:
        nd = None
        a = pix.astype(enc)
        a[~vm] = np.nan
        want = np.array([np.float32(ac1d(a[k])) for k in range(a.shape[0])]).reshape(ny, nx)
        attrs = {}
    yxt = np.ascontiguousarray(a.reshape(ny, nx, nt))
    tyx = np.ascontiguousarray(yxt.transpose(2, 0, 1))
    r1 = call("autocorr(yxt)", ops.autocorr, yxt, nd)
    r2 = call("autocorr_tyx", ops.autocorr_tyx, tyx, nd)
    req(r1.dtype == np.float32 and r2.dtype == np.float32, "driver dtypes %s %s" % (r1.dtype, r2.dtype), "driver dtype")
    req(np.array_equal(r1, want), "autocorr (y,x,t) %s != per-pixel 1-d values %s" % (fmt(r1), fmt(want)), "yxt driver")
    req(np.array_equal(r2, want), "autocorr_tyx %s != per-pixel 1-d values %s" % (fmt(r2), fmt(want)), "tyx driver")
    t = pd.date_range("2000-01-01", periods=nt, freq="D")
    for dims, data in ((("y", "x", "time"), yxt), (("time", "y", "x"), tyx)):
        da = xr.DataArray(data, dims=dims, coords={"time": t, "y": np.arange(ny) * 1.5, "x": np.arange(nx)}, attrs=attrs)
        res = call("hdc.algo.autocorr", lambda: da.hdc.algo.autocorr())
        req(res.dims == ("y", "x"), "accessor autocorr dims %s for input dims %s" % (res.dims, dims), "accessor dims")
        req(res.dtype == np.float32, "accessor autocorr dtype %s" % res.dtype, "accessor dtype")
        req(np.array_equal(res.values, want), "accessor autocorr (%s) %s != per-pixel 1-d values %s" % ("/".join(dims), fmt(res.values), fmt(want)),
            "accessor value")


def sub_history(case):
    """One integer DataArray object queried again and again while its nodata attribute and its cells are edited in place, with
    other same-shaped cubes processed in between: every answer must describe the array as it is at that moment (per-pixel 1-d
    value under the CURRENT nodata attribute), and every answer handed out earlier must still hold its values at the end."""
    import warnings

    ny, nx = case["shape"]
    dims = tuple(case["dims"])
    vals = np.array(case["pixels"], dtype="int16").reshape(ny, nx, -1).copy()
    nt = vals.shape[2]
    t = pd.date_range("2000-01-01", periods=nt, freq="D")
    base = xr.DataArray(vals, dims=("y", "x", "time"), coords={"time": t}).transpose(*dims)
    da = base.copy(deep=True)
    if case.get("nodata0") is not None:
        da.attrs["nodata"] = case["nodata0"]
    held = []

    def want_of(arr_yxt, nd):
        return np.array([[np.float32(ac1d(np.ascontiguousarray(arr_yxt[i, j]), nd)) for j in range(nx)] for i in range(ny)])

    for k, op in enumerate(case["ops"]):
        kind = op[0]
        if kind == "set_nodata":
            da.attrs["nodata"] = op[1]
        elif kind == "del_nodata":
            da.attrs.pop("nodata", None)
        elif kind == "set_cell":
            i, j, q, v = op[1] % ny, op[2] % nx, op[3] % nt, op[4]
            da.loc[{"y": da.y[i], "x": da.x[j], "time": da.time[q]}] = v
        elif kind in ("query", "query_lazy", "other"):
            with warnings.catch_warnings():
                warnings.simplefilter("ignore")
                if kind == "other":
                    o = base.copy(deep=True)
                    o.values[...] = np.roll(o.values, op[1] % 5 + 1, axis=o.get_axis_num("time")) // 2 + op[1]
                    o.attrs["nodata"] = -9999
                    res = call("autocorr() of another cube of the same shape", lambda: o.hdc.algo.autocorr())
                    want = want_of(o.transpose("y", "x", "time").values, -9999)
                elif kind == "query_lazy":
                    lz = da.chunk({"y": 1, "x": 1, "time": -1})
                    res = call("autocorr() on equal 1x1 dask blocks", lambda: lz.hdc.algo.autocorr().compute(scheduler="synchronous"))
                    want = want_of(da.transpose("y", "x", "time").values, da.attrs.get("nodata"))
                else:
                    res = call("autocorr() after %d operations" % k, lambda: da.hdc.algo.autocorr())
                    want = want_of(da.transpose("y", "x", "time").values, da.attrs.get("nodata"))
            got = res.transpose("y", "x").values
            req(np.array_equal(got, want), "autocorr() after the history %s (nodata attribute now %r): %s, per-pixel 1-d values of the current array %s" % (
                [o_[0] for o_ in case["ops"][:k + 1]], da.attrs.get("nodata"), fmt(got.ravel(), 9), fmt(want.ravel(), 9)), "autocorr stale after in-place edit")
            held.append((k, res, want))
    for k, res, want in held:
        req(np.array_equal(res.transpose("y", "x").values, want), "the autocorr() result obtained at step %d changed afterwards (history %s): now %s, was %s" % (
            k, [o_[0] for o_ in case["ops"]], fmt(res.transpose("y", "x").values.ravel(), 9), fmt(want.ravel(), 9)), "autocorr result aliased")


SUBS = {"history": sub_history, "ref": sub_ref, "affine": sub_affine, "encoding": sub_encoding, "layout": sub_layout}

AC_GAPS = ["none", "isolated", "runs", "runs", "leading", "trailing", "lead_trail", "all_but_k", "alternating", "outage"]


@st.composite
def acgap(draw, n):
    cls = draw(st.sampled_from(AC_GAPS))
    if cls == "outage":
        frac = draw(st.sampled_from([0.3, 0.5, 0.7, 0.9]))
        ln = max(1, int(frac * n))
        a = draw(st.integers(0, n - ln))
        v = [not (a <= i < a + ln) for i in range(n)]
        return {"gcls": "outage_%d" % int(frac * 100), "valid": v}
    return draw(gens.gap_mask(n, classes=[cls]))


@st.composite
def case1(draw, nmax, vmax=10000, encs=("int16", "float32", "float64")):
    s = draw(gens.series(nmin=3, nmax=nmax, vmax=vmax))
    if draw(st.integers(0, 11)) == 0 and len(s["y"]) >= 6:
        # a quiet record (a few units of variation) whose first or last value is far away
        nz = draw(st.integers(1, 4))
        base = draw(st.integers(-vmax // 2, vmax // 2))
        q = [base + v for v in draw(st.lists(st.integers(-nz, nz), min_size=len(s["y"]), max_size=len(s["y"])))]
        q[0 if draw(st.booleans()) else -1] = max(-vmax, min(vmax, base + draw(st.sampled_from([-1, 1])) * draw(st.integers(vmax // 4, vmax // 2))))
        s = {"cls": "quiet_with_end_outlier", "y": q}
    highlevel = vmax >= 10000 and draw(st.integers(0, 9)) == 0
    if highlevel:
        # a few counts of variation on a level near the top / bottom of int16 (spread / level ~ 1e-4): still an ordinary integer series
        band = draw(st.integers(1, 4))
        level = draw(st.sampled_from([-1, 1])) * draw(st.integers(12000, 32000))
        s = {"cls": "narrow_band_on_high_level", "y": [level + v for v in draw(st.lists(st.integers(0, band), min_size=len(s["y"]), max_size=len(s["y"])))]}
    n = len(s["y"])
    g = draw(acgap(n))
    enc = draw(st.sampled_from(encs))
    x = s["y"]
    integral = True
    if enc != "int16" and draw(st.integers(0, 2)) == 0:
        sc = draw(st.sampled_from([0.001, 0.1, 1.5, 1234.567, 1e-3 / 3]))
        off = draw(st.sampled_from([0.0, 0.25 * sc, 100.0 * sc / 3]))
        x = [v * sc + off for v in x]
        integral = False
    return {"x": x, "valid": g["valid"], "enc": enc, "nodata": -32768 if (draw(st.booleans()) or highlevel) else -9999 - vmax,
            "ycls": s["cls"], "gcls": g["gcls"], "integral": integral}


def run(ctx):
    rec = ctx.rec

    def f_ref(case):
        x, valid = _arr(case)
        pairs = int((valid[:-1] & valid[1:]).sum())
        r = sub_ref(case)
        if r is None:
            rec.discard("ref", "ill_conditioned_float_sums")
            r = 0.0
        rec.case("ref", case, nontrivial=(not valid.all()) and pairs > 0 and r != 0.0,
                 cls=["enc:" + case["enc"], "gap:" + case["gcls"], "y:" + case["ycls"], "zero" if r == 0.0 else "nonzero"])
        if not ctx.quick:
            target(abs(r), label="|r|")

    ctx.given("ref", case1(ctx.n(300, 900)), ctx.n(2500, 40000), fn=f_ref)

    @st.composite
    def aff(draw):
        c = draw(case1(ctx.n(200, 900), vmax=1000, encs=("int16",)))
        c["a"] = draw(st.integers(1, 30))
        c["b"] = draw(st.integers(-2000, 2000))
        if draw(st.integers(0, 3)) == 0:
            # a pure level shift towards the end of the int16 range (|x| <= 1000, so a*x+b stays inside), also of a low-amplitude series
            c["a"] = draw(st.integers(1, 2))
            c["b"] = draw(st.sampled_from([-1, 1])) * draw(st.integers(15000, 30000))
            if draw(st.booleans()):
                band = draw(st.integers(2, 5))
                c["x"] = [int(v) % band for v in c["x"]]
        c["nodata"] = -32768
        return c

    def f_aff(case):
        rec.case("affine", case, nontrivial=not all(case["valid"]), cls=["gap:" + case["gcls"]])
        sub_affine(case)

    ctx.given("affine", aff(), ctx.n(600, 8000), fn=f_aff)

    def f_enc(case):
        rec.case("encoding", case, nontrivial=not all(case["valid"]), cls=["gap:" + case["gcls"]])
        sub_encoding(case)

    ctx.given("encoding", case1(ctx.n(200, 900), vmax=2000, encs=("int16",)), ctx.n(600, 8000), fn=f_enc)

    @st.composite
    def lay(draw):
        ny, nx = draw(st.integers(1, 3)), draw(st.integers(1, 3))
        nt = draw(st.integers(3, 80))
        px, vm = [], []
        for _ in range(ny * nx):
            px.append(draw(gens.series(n=nt))["y"])
            vm.append(draw(acgap(nt))["valid"])
        return {"shape": [ny, nx], "pixels": px, "valid": vm, "enc": draw(st.sampled_from(["int16", "int16", "float32", "float64"])),
                "nodata": draw(st.sampled_from([-32768, 0, -9999, 255]))}

    def f_lay(case):
        rec.case("layout", case, nontrivial=True, cls=["enc:" + case["enc"]])
        sub_layout(case)

    ctx.given("layout", lay(), ctx.n(150, 2000), fn=f_lay)

    @st.composite
    def hist(draw):
        ny, nx = draw(st.sampled_from([(1, 1), (2, 2), (2, 2), (1, 3), (3, 2)]))
        nt = draw(st.integers(4, 24))
        markers = [-9999, 0, 255, 7]
        cell = st.one_of(st.integers(-300, 300), st.sampled_from(markers))
        px = [draw(st.lists(cell, min_size=nt, max_size=nt)) for _ in range(ny * nx)]
        ops_ = draw(st.lists(st.one_of(st.tuples(st.just("query")), st.tuples(st.just("query")), st.tuples(st.just("query_lazy")),
                                       st.tuples(st.just("set_nodata"), st.sampled_from(markers)), st.tuples(st.just("del_nodata")),
                                       st.tuples(st.just("set_cell"), st.integers(0, 2), st.integers(0, 2), st.integers(0, 23), cell),
                                       st.tuples(st.just("other"), st.integers(0, 9))), min_size=2, max_size=9))
        return {"shape": [ny, nx], "pixels": px, "dims": list(draw(st.sampled_from([("y", "x", "time"), ("time", "y", "x")]))),
                "nodata0": draw(st.sampled_from([None, -9999, 0])), "ops": [list(o) for o in ops_] + [["query"]]}

    def f_hist(case):
        kinds = [o[0] for o in case["ops"]]
        rec.case("history", case, nontrivial=sum(k.startswith("query") for k in kinds) >= 2 and any(k in ("set_nodata", "del_nodata", "set_cell", "other") for k in kinds),
                 cls=["ops=%d" % len(kinds)] + sorted(set(kinds)))
        sub_history(case)

    ctx.given("history", hist(), ctx.n(250, 3000), fn=f_hist)
