"""C19 - iterative aggregation yields exactly the complete trailing windows."""
from __future__ import annotations

import warnings

import numpy as np
import pandas as pd
import xarray as xr
from hypothesis import strategies as st

import hdc.algo  # noqa: F401
from harness.core import Violation
from harness.util import call, req, fmt, expect_raises

PID = "C19"
LEVEL = "exploration"
RULE = ("Enumerated completely: axis length L = 1..7 (quick) / 1..12 (thorough), n in 1..L+1 and None, begin and end in {None} U axis "
        "labels, for sum / mean / full on a 2-pixel cube containing NaNs, over the time dimension and over a non-time (integer "
        "labelled) dimension. Generated: labels off the axis (before, between, after the steps) x method in {None, nearest, ffill, "
        "bfill} on irregular axes, longer axes (L <= 40). Oracle: window-list model - windows (k-n+1..k) for k = index(begin) .. "
        "max(index(end), n-1) descending; every yielded item must carry nansum / nanmean / the untouched slice of exactly that window, "
        "be stamped with axis[k] (time dim) and carry agg_start, agg_stop, agg_n; a label that cannot be located raises ValueError. "
        "Non-trivial: begin or end given, or n not in {1,3}, or L != 5; distinct by configuration. "
        " Added after the fourth seeded round: Cube also as the variables of a Dataset; sub-check 'history': axis relabelled / cells overwritten in place between calls, compared with a brand-new object. "
        " Added after the fifth seeded round: Lazy cubes with all windows evaluated afterwards; int16 / uint8 / int32 cubes whose sums exceed the storage dtype.")
ASSUME = ["label lookup model: ffill = last label <= target, bfill = first label >= target, nearest (equidistant targets avoided)"]
EXHAUSTIVE_WHOLE = False

T0 = pd.Timestamp("2000-01-01")


def _axis_labels(case):
    if case["dim"] == "time":
        return [T0 + pd.Timedelta(days=int(d)) for d in case["axis"]]
    return [int(d) for d in case["axis"]]


def _label(case, v):
    """Label handed to the API for axis position/offset v (an integer in axis units)."""
    if v is None:
        return None
    if case["dim"] == "time":
        ts = T0 + pd.Timedelta(days=int(v))
        return str(ts.date()) if case.get("as_str", True) else ts
    return int(v)


def locate(axis, v, method):
    """Index of label v on the (sorted) axis under the pandas lookup method, or None."""
    if v in axis:
        return axis.index(v)
    if method is None:
        return None
    if method == "ffill":
        c = [i for i, a in enumerate(axis) if a <= v]
        return c[-1] if c else None
    if method == "bfill":
        c = [i for i, a in enumerate(axis) if a >= v]
        return c[0] if c else None
    d = [abs(a - v) for a in axis]
    return int(np.argmin(d))


def model_windows(L, n, b, e):
    out = []
    for k in range(b, max(e, n - 1) - 1, -1):
        out.append((k - n + 1, k))
    return out


def _cube(case):
    L = len(case["axis"])
    vals = np.array(case["values"], dtype="float64").reshape(L, 2)
    for (i, j) in case.get("nans", []):
        vals[i, j] = np.nan
    labels = _axis_labels(case)
    if case.get("vdtype"):
        # narrow integer cubes (no NaN cells): window sums may exceed the storage dtype's range
        info = np.iinfo(case["vdtype"])
        vals = np.array(case["values"], dtype="float64").reshape(L, 2)
        vals = (np.abs(vals) * case.get("vscale", 1) % (int(info.max) + 1)).astype(case["vdtype"])
    if case["dim"] == "time":
        da = xr.DataArray(vals, dims=("time", "px"), coords={"time": pd.DatetimeIndex(labels), "px": [10, 20]}, attrs={"nodata": -1, "k": "v"})
    else:
        da = xr.DataArray(vals.T.copy(), dims=("px", "band"), coords={"band": labels, "px": [10, 20]}, attrs={"nodata": -1})
    return da, vals, labels


def sub_iteragg(case):
    da, vals, labels = _cube(case)
    L = len(labels)
    axis = [int(v) for v in case["axis"]]
    n = case["n"]
    method = case.get("method")
    dim = case["dim"]
    func = case["func"]
    kw = {"dim": dim}
    if case.get("begin") is not None:
        kw["begin"] = _label(case, case["begin"])
    if case.get("end") is not None:
        kw["end"] = _label(case, case["end"])
    if method is not None:
        kw["method"] = method
    b = L - 1 if case.get("begin") is None else locate(axis, case["begin"], method)
    e = 0 if case.get("end") is None else locate(axis, case["end"], method)
    obj = da
    if case.get("container") == "dataset":
        # the same cube as the variables a and b = 2a of a Dataset (the aggregation runs once per variable)
        obj = xr.Dataset({"a": da, "b": (da.astype("int64") if da.dtype.kind in "iu" else da) * 2}, attrs=dict(da.attrs))
    if case.get("container") == "dask":
        # lazy cube (aggregated dim in one chunk): all windows are collected first and evaluated afterwards, as concat / dask.compute do
        obj = da.chunk({dim: -1, "px": 1})
    gen = getattr(obj.hdc.iteragg, func)
    desc = "iteragg.%s(n=%r, %s) on axis %s" % (func, n, ", ".join("%s=%r" % kv for kv in kw.items()), fmt(axis, 14))
    if b is None or e is None:
        expect_raises(desc + " with a label that is not on the axis", (ValueError,), lambda: list(gen(n, **kw)))
        return "off_axis_error"
    with warnings.catch_warnings():
        warnings.simplefilter("ignore")
        items = call(desc, lambda: list(gen(n, **kw)))
    if case.get("container") == "dask":
        import dask
        with dask.config.set(scheduler="synchronous"):
            items = list(dask.compute(*items))
        obj = da
    nn = L if n is None else n
    want = model_windows(L, nn, b, e)
    req(len(items) == len(want), "%s yields %d results, the window model says %d (%s)" % (desc, len(items), len(want), want[:6]), "iteragg window count")
    for it, (j, k) in zip(items, want):
        w = vals[j:k + 1]  # (n, 2)
        a = it.attrs
        if obj is not da:
            req(isinstance(it, xr.Dataset) and set(it.data_vars) == {"a", "b"}, "%s on a Dataset yields %s" % (desc, type(it).__name__), "iteragg dataset item")
            twice = it["b"]
            it = it["a"]
            req(np.allclose(twice.values.astype("float64"), 2 * it.values.astype("float64"), rtol=1e-12, atol=0, equal_nan=True), "%s: Dataset variable b = 2a gives %s, variable a gives %s" % (
                desc, fmt(twice.values.ravel()), fmt(it.values.ravel())), "iteragg dataset variables disagree")
        req(a.get("agg_start") == str(labels[j]) and a.get("agg_stop") == str(labels[k]) and a.get("agg_n") == nn,
            "%s: window (%d..%d) carries attrs %s" % (desc, j, k, {x: a.get(x) for x in ("agg_start", "agg_stop", "agg_n")}), "iteragg attrs")
        req(a.get("nodata") == -1, "%s: original attrs lost: %s" % (desc, a), "iteragg keep attrs")
        if func == "full":
            got = it.transpose(dim, "px").values
            req(it.sizes[dim] == nn and np.array_equal(got, w, equal_nan=True), "%s: full window (%d..%d) is %s, expected %s" % (desc, j, k, fmt(got), fmt(w)),
                "iteragg full slice")
            req(list(it[dim].values) == list(da[dim].values[j:k + 1]), "%s: full window coords" % desc, "iteragg full coords")
            continue
        with warnings.catch_warnings():
            warnings.simplefilter("ignore")
            ref = np.nansum(w, axis=0) if func == "sum" else np.nanmean(w, axis=0)
        if dim == "time":
            req(it.dims == ("time", "px") and it.sizes["time"] == 1, "%s: result dims %s" % (desc, it.dims), "iteragg dims")
            req(pd.Timestamp(it.time.values[0]) == labels[k], "%s: window (%d..%d) is stamped %s, expected %s" % (desc, j, k, it.time.values[0], labels[k]),
                "iteragg time stamp")
            got = it.values[0]
        else:
            req(it.dims == ("px",), "%s: result dims %s" % (desc, it.dims), "iteragg dims")
            got = it.values
        req(np.allclose(got, ref, rtol=1e-12, atol=0, equal_nan=True), "%s: window (%d..%d) gives %s, nan-skipping %s of %s is %s" % (
            desc, j, k, fmt(got), func, fmt(w.T), fmt(ref)), "iteragg value")
    return None


def sub_history(case):
    """One cube object used again and again while its axis is relabelled in place and cells are overwritten: every iteragg call must
    behave exactly like the same call on a brand-new object built from the current state (same items, same attrs, same errors),
    and items handed out earlier keep their values."""
    da, vals, labels = _cube(case)
    dim = case["dim"]
    axis = [int(v) for v in case["axis"]]
    held = []

    def items_of(obj, op):
        kw = {"dim": dim}
        c2 = dict(case, axis=axis)
        if op[3] is not None:
            kw["begin"] = _label(c2, op[3])
        if op[4] is not None:
            kw["end"] = _label(c2, op[4])
        try:
            with warnings.catch_warnings():
                warnings.simplefilter("ignore")
                return list(getattr(obj.hdc.iteragg, op[1])(op[2], **kw)), None
        except ValueError as ex:
            return None, ex

    for k, op in enumerate(case["ops"]):
        if op[0] == "shift_axis":
            axis = [a + int(op[1]) for a in axis]
            c2 = dict(case, axis=axis)
            newlab = _axis_labels(c2)
            da[dim] = pd.DatetimeIndex(newlab) if dim == "time" else newlab
        elif op[0] == "set_cell":
            i, j = op[1] % len(axis), op[2] % 2
            if dim == "time":
                da.values[i, j] = op[3]
            else:
                da.values[j, i] = op[3]
        else:
            fresh = xr.DataArray(da.values.copy(), dims=da.dims, coords={c: da.coords[c].values.copy() for c in da.coords}, attrs=dict(da.attrs))
            got, gerr = items_of(da, op)
            want, werr = items_of(fresh, op)
            hist = [o[0] for o in case["ops"][:k + 1]]
            desc = "iteragg.%s(n=%r, begin=%r, end=%r) on the same object after the history %s (axis now %s)" % (op[1], op[2], op[3], op[4], hist, fmt(axis, 12))
            req((gerr is None) == (werr is None), "%s %s, a new object with the same content %s" % (
                desc, "raises %r" % gerr if gerr else "yields %d items" % len(got), "raises %r" % werr if werr else "yields %d items" % len(want)),
                "iteragg stale after in-place edit (error)")
            if gerr is None:
                req(len(got) == len(want), "%s yields %d items, a new object with the same content %d" % (desc, len(got), len(want)), "iteragg stale after in-place edit (count)")
                for a, b in zip(got, want):
                    req(a.attrs == b.attrs, "%s: attrs %s, a new object with the same content gives %s" % (desc, a.attrs, b.attrs), "iteragg stale after in-place edit (attrs)")
                    req(a.dims == b.dims and np.array_equal(a.values, b.values, equal_nan=True) and all(
                        np.array_equal(a.coords[c].values, b.coords[c].values) for c in b.coords),
                        "%s: item %s, a new object with the same content gives %s" % (desc, fmt(a.values.ravel()), fmt(b.values.ravel())), "iteragg stale after in-place edit (values)")
                    held.append((k, a, a.values.copy()))
    for k, a, snap in held:
        req(np.array_equal(a.values, snap, equal_nan=True) or case.get("views_expected", True) and any(o[0] == "set_cell" for o in case["ops"]),
            "an iteragg item obtained at step %d changed afterwards" % k, "iteragg item aliased")


SUBS = {"iteragg": sub_iteragg, "history": sub_history}


def _values(L, seed):
    r = np.random.RandomState(seed)  # fixed content for the enumerated cube (not a search dimension)
    return np.round(r.uniform(-50, 50, size=(L, 2)), 1).ravel().tolist()


def _enumerate(ctx, Lmax):
    rec = ctx.rec
    for L in range(1, Lmax + 1):
        axis = [3 * i + (i * i) % 3 for i in range(L)]  # irregular, sorted, unique
        nans = [[i, i % 2] for i in range(0, L, 3)] + ([[1, 0], [1, 1]] if L > 1 else [])
        for dim in ("time", "band"):
            for func in ("sum", "mean", "full"):
                for n in list(range(1, L + 2)) + [None]:
                    for begin in [None] + axis:
                        for end in [None] + axis:
                            case = {"axis": axis, "values": _values(L, L), "nans": nans, "dim": dim, "func": func, "n": n, "begin": begin, "end": end}
                            try:
                                sub_iteragg(case)
                            except Violation:
                                ctx.run_case("iteragg", case)
                                return False
                            nontriv = begin is not None or end is not None or n not in (1, 3) or L != 5
                            rec.case("iteragg", case if (n == 2 and begin == axis[-1] and end is None and func == "sum") else None,
                                     nontrivial=False, cls="enum_L=%d" % L)
                            if nontriv:
                                rec.bulk_nontrivial("iteragg", {("e", L, dim, func, n, begin, end)})
    rec.exhaustive_parts.append("iteragg sum/mean/full: L=1..%d, n=1..L+1 and None, begin/end in {None} U axis, time and non-time dim" % Lmax)
    return True


@st.composite
def gen_case(draw, Lmax):
    L = draw(st.one_of(st.integers(1, 8), st.integers(1, Lmax)))
    gaps = draw(st.lists(st.sampled_from([4, 6, 10, 30]), min_size=L - 1, max_size=L - 1))
    dim = draw(st.sampled_from(["time", "band"]))
    # numeric axes may start below zero, so that the label 0 (or 0.0) sits in the middle of the axis, at its end, or off it
    start = 0 if dim == "time" else draw(st.sampled_from([0, 0, -4, -10, -20, -60, 3]))
    axis = [start]
    for g in gaps:
        axis.append(axis[-1] + g)

    def lab():
        kind = draw(st.sampled_from(["none", "on", "on", "between", "before", "after", "zero"]))
        if kind == "none":
            return None, kind
        if kind == "zero":
            # the label 0 itself: first step, inner step or off the axis (equidistant positions are avoided for 'nearest')
            if 0 in axis or all(abs(a_ - 0) != abs(b_ - 0) for a_, b_ in zip(axis, axis[1:])):
                return 0, kind
            return axis[0], "on"
        if kind == "on":
            return draw(st.sampled_from(axis + ([0] if 0 in axis else []))), kind
        if kind == "before":
            return axis[0] - draw(st.sampled_from([1, 3, 11])), kind
        if kind == "after":
            return axis[-1] + draw(st.sampled_from([1, 3, 11])), kind
        if L < 2:
            return axis[0] + 1, "after"
        i = draw(st.integers(0, L - 2))
        # not equidistant from its neighbours: gaps are even, so +1 is strictly closer to the left label
        return axis[i] + 1, kind

    b, bk = lab()
    e, ek = lab()
    vals = draw(st.lists(st.integers(-500, 500), min_size=2 * L, max_size=2 * L))
    nn = draw(st.integers(0, L))
    nans = [[draw(st.integers(0, L - 1)), draw(st.integers(0, 1))] for _ in range(nn)]
    return {"axis": axis, "values": vals, "nans": nans, "dim": dim, "func": draw(st.sampled_from(["sum", "mean", "full"])),
            "n": draw(st.one_of(st.none(), st.integers(1, L + 1))), "begin": b, "end": e, "bk": bk, "ek": ek,
            "method": draw(st.sampled_from([None, None, "nearest", "ffill", "bfill"])), "as_str": draw(st.booleans()),
            "container": draw(st.sampled_from(["dataarray", "dataarray", "dataset", "dask"])),
            **({"vdtype": draw(st.sampled_from(["int16", "uint8", "int32"])), "vscale": draw(st.sampled_from([1, 60, 600]))} if draw(st.integers(0, 4)) == 0 else {})}


def run(ctx):
    rec = ctx.rec
    if not _enumerate(ctx, ctx.n(7, 12)):
        return

    def f(case):
        why = sub_iteragg(case)
        rec.case("iteragg", case, nontrivial=True, cls=["begin:" + case["bk"], "end:" + case["ek"], "method:%s" % case["method"], "dim:" + case["dim"],
                                                         "raised" if why else "yielded", "container:" + case.get("container", "dataarray")])

    ctx.given("iteragg", gen_case(ctx.n(20, 40)), ctx.n(1500, 15000), fn=f)

    @st.composite
    def hist(draw):
        L = draw(st.integers(2, 8))
        dim = draw(st.sampled_from(["time", "band"]))
        axis = [0]
        for g in draw(st.lists(st.sampled_from([4, 6, 10]), min_size=L - 1, max_size=L - 1)):
            axis.append(axis[-1] + g)
        offs = st.sampled_from([0, 4, 6, 10, 20, -4, -10, 16, 30])   # labels on or off the axis, before and after relabelling
        q = st.tuples(st.just("agg"), st.sampled_from(["sum", "mean", "full"]), st.one_of(st.none(), st.integers(1, L)), st.one_of(st.none(), offs), st.one_of(st.none(), offs))
        ops_ = draw(st.lists(st.one_of(q, q, st.tuples(st.just("shift_axis"), st.sampled_from([4, 6, 10, -4, 20])),
                                       st.tuples(st.just("set_cell"), st.integers(0, 7), st.integers(0, 1), st.integers(-99, 99))), min_size=2, max_size=8))
        return {"axis": axis, "dim": dim, "values": draw(st.lists(st.integers(-500, 500), min_size=2 * L, max_size=2 * L)),
                "nans": [[draw(st.integers(0, L - 1)), draw(st.integers(0, 1))] for _ in range(draw(st.integers(0, 2)))],
                "as_str": draw(st.booleans()), "ops": [list(o) for o in ops_] + [list(draw(q))]}

    def f_h(case):
        kinds = [o[0] for o in case["ops"]]
        rec.case("history", case, nontrivial=kinds.count("agg") >= 2 and ("shift_axis" in kinds or "set_cell" in kinds), cls=["ops=%d" % len(kinds)] + sorted(set(kinds)))
        sub_history(case)

    ctx.given("history", hist(), ctx.n(300, 4000), fn=f_h)
