"""C02 - missing observations carry zero weight in every smoother."""
from __future__ import annotations

import sys
import numpy as np
from hypothesis import strategies as st

from harness import gens, refs, smooth
from harness.core import Violation
from harness.util import call, req, fmt

PID = "C02"
LEVEL = "exploration"
RULE = ("Hypothesis draws a series (9 classes, n 4..200, |v|<=1e4), a gap pattern (8 classes incl. all-but-k, k=0..6), "
        "one of the nine smoother configurations with generated lambda/p/srange/lc, and 2..5 placeholder encodings "
        "(finite below/inside/above the valid data, 0, huge finite fill values such as -3.4e38, and NaN/+inf/-inf with an unrelated finite nodata for gu, pgu, "
        "wcv, wcvp). Oracles: (1) output and lopt bit-identical across encodings; (2) the output equals the rounding "
        "(tie rule) of an independent LAPACK reference curve fitted to the valid cells only, at every cell incl. the "
        "missing ones; (3) fewer than 2 (5 for GCV) valid cells -> input returned unchanged, lopt 0; (4) the same independence through the "
        "whits / whitsvc / whitswcv accessors with nodata passed as argument (0 included) while the array carries an unrelated nodata attribute. Non-trivial: "
        ">=1 missing cell; distinct by content hash. Cases whose reference curve leaves int16 are discarded and counted. "
        " Added after the fourth seeded round: Encodings also include 'mixed' (nodata, NaN and +-inf cells inside one series) and, on gap-free series holding the wrapped values, nodata values no cell can hold (65535, NaN, 0.5, 1e10). "
        " Added after the fifth seeded round: Generic sub-check 'history' (harness/history.py): one object queried repeatedly through whits/whitsvc/whitswcv with sticky arguments while attributes, cells and time labels are edited in place and other same-shaped objects are processed; every answer equals that of a brand-new object, earlier results are re-compared at the end. "
        " Added after the sixth seeded round: sub-check 'gapfill_robust': the band of the robust GCV variants on gappy series (levels below / across zero emphasised) must be one of the outcomes the set-valued robust reference model (C05) admits on the valid cells only.")
ASSUME = ["LAPACK banded solvers (scipy.linalg.solveh_banded) as reference", "rounding-tie and fragility rules of DESIGN 2.5/2.7"]

NONFINITE = [float("nan"), float("inf"), float("-inf")]


def _prm(case):
    prm = {}
    if "loglam" in case:
        prm["lam"] = 10.0 ** case["loglam"]
    if "p" in case:
        prm["p"] = case["p"]
    if "sr" in case:
        prm["llas"] = gens.srange_array(case["sr"])
    if "lc" in case:
        prm["lc"] = case["lc"]
    return prm


def _filled(y, valid, fill, enc=None):
    a = np.array(y, dtype="float64")
    a[~valid] = fill
    if enc is not None and enc.get("mix"):
        # several encodings of "missing" inside ONE series: the k-th missing cell takes mix[k % len(mix)] (None = the nodata value)
        mix = enc["mix"]
        for k, i in enumerate(np.nonzero(~valid)[0]):
            m = mix[k % len(mix)]
            a[i] = float(enc["nodata"]) if m is None else float(str(m).replace("Infinity", "inf").replace("NaN", "nan"))
    return a


def sub_placeholder(case):
    variant = case["variant"]
    y = np.array(case["y"], dtype="float64")
    valid = np.array(case["valid"], dtype=bool)
    prm = _prm(case)
    enough = valid.sum() >= smooth.min_valid(variant)
    base = None
    for enc in case["encodings"]:
        fill, nd = float(enc["fill"]), float(enc["nodata"])
        out, lopt = smooth.run_variant(variant, _filled(y, valid, fill, enc), nd, prm)
        cells = slice(None) if enough else valid
        if base is None:
            base = (out, lopt, enc)
            continue
        o0, l0, e0 = base
        same = np.array_equal(np.asarray(out)[cells], np.asarray(o0)[cells])
        if not same:
            d = np.nonzero(np.asarray(out)[cells] != np.asarray(o0)[cells])[0]
            raise Violation("%s: output depends on the placeholder: encoding %s gives %s, encoding %s gives %s (first differing cell %d; "
                            "y=%s valid=%s)" % (variant, e0, fmt(np.asarray(o0)[cells]), enc, fmt(np.asarray(out)[cells]), int(d[0]),
                                                fmt(y), fmt(valid.astype(int))), signature="%s placeholder dependence" % variant)
        if lopt is not None:
            req(lopt == l0 or (np.isnan(lopt) and np.isnan(l0)),
                "%s: reported lambda depends on the placeholder: %r (%s) vs %r (%s)" % (variant, l0, e0, lopt, enc),
                "%s placeholder dependence (lopt)" % variant)


def sub_gapfill(case, rec=None):
    variant = case["variant"]
    y = np.array(case["y"], dtype="float64")
    valid = np.array(case["valid"], dtype=bool)
    prm = _prm(case)
    enc = case["encodings"][0]
    out, lopt = smooth.run_variant(variant, _filled(y, valid, float(enc["fill"])), float(enc["nodata"]), prm)
    lam = prm["lam"] if lopt is None else lopt
    req(np.isfinite(lam) and lam > 0, "%s: reported lambda %r for a series with %d valid cells" % (variant, lam, int(valid.sum())),
        "%s lopt not positive" % variant)
    z, margin = smooth.reference_curve(variant, y, valid, lam, prm)
    if np.max(np.abs(z)) >= 32766:
        return "curve_leaves_int16"
    kap = smooth.kappa(y.size, lam, valid, prm.get("p") if variant in smooth.NEEDS_P else None)
    tau = refs.tie_tau(z, kap)
    if tau >= 0.25:
        return "unresolvable_conditioning"
    if margin <= 10 * tau:
        return "fragile_envelope_decision"
    smooth.compare_to_curve("%s gap filling (n=%d, %d valid, lambda=%.6g)" % (variant, y.size, int(valid.sum()), lam), out, z, tau, rec)
    return None


def sub_passthrough(case):
    variant = case["variant"]
    y = np.array(case["y"], dtype="float64")
    valid = np.array(case["valid"], dtype=bool)
    prm = _prm(case)
    for enc in case["encodings"]:
        fill = float(enc["fill"])
        if not np.isfinite(fill):
            continue
        yy = _filled(y, valid, fill)
        out, lopt = smooth.run_variant(variant, yy, float(enc["nodata"]), prm)
        req(np.array_equal(np.asarray(out), yy.astype("int16")),
            "%s with %d valid cells (< %d) does not return the input unchanged: in %s out %s" % (
                variant, int(valid.sum()), smooth.min_valid(variant), fmt(yy), fmt(out)), "%s passthrough" % variant)
        if lopt is not None:
            req(lopt == 0.0, "%s with %d valid cells reports lambda %r instead of 0" % (variant, int(valid.sum()), lopt),
                "%s passthrough lopt" % variant)


def sub_accessor(case):
    """The same independence through DataArray.hdc.whit.*: nodata is given as ARGUMENT (0 included), the array carries an unrelated
    nodata attribute, and every pixel must equal the kernel on that pixel's series with that nodata."""
    import pandas as pd
    import xarray as xr
    import hdc.algo  # noqa: F401

    pix = np.array(case["pixels"], dtype="float64")
    vm = np.array(case["valid"], dtype=bool)
    nt = pix.shape[1]
    prm = _prm(case)
    op = case["op"]
    base = None
    for enc in case["encodings"]:
        fill = float(enc["fill"])
        arr = pix.copy()
        arr[~vm] = fill
        cube = arr.reshape(arr.shape[0], 1, nt).astype(case["dtype"])
        da = xr.DataArray(cube, dims=("y", "x", "time"), coords={"time": pd.date_range("2010-01-01", periods=nt, freq="10D")},
                          attrs={"nodata": case["attr_nodata"]}).transpose(*case["dims"])
        nd = enc["fill"] if case["dtype"] != "int16" else int(enc["fill"])
        if op == "whits":
            res = call("whits", lambda: da.hdc.whit.whits(nd, s=prm["lam"], **({"p": prm["p"]} if "p" in prm else {})))
            band, sg = res, None
        elif op == "whitsvc":
            ds = call("whitsvc", lambda: da.hdc.whit.whitsvc(nd, srange=prm["llas"], **({"p": prm["p"]} if "p" in prm else {})))
            band, sg = ds["band"], ds["sgrid"]
        else:
            ds = call("whitswcv", lambda: da.hdc.whit.whitswcv(nd, srange=prm["llas"], robust=case["robust"], **({"p": prm["p"]} if "p" in prm else {})))
            band, sg = ds["band"], ds["sgrid"]
        b = band.transpose("y", "x", "time").values[:, 0, :]
        enough = vm.sum(axis=1) >= (5 if op == "whitswcv" else 2)
        b = np.where(enough[:, None] | vm, b, 0)  # passthrough pixels echo the placeholder at missing cells
        g = None if sg is None else np.where(enough, sg.transpose("y", "x").values[:, 0], 0)
        if base is None:
            base = (b, g, enc)
            continue
        req(np.array_equal(b, base[0]), "%s through the accessor: result depends on the nodata value passed (%s vs %s): %s vs %s" % (
            op, base[2], enc, fmt(base[0].ravel(), 14), fmt(b.ravel(), 14)), "%s accessor placeholder dependence" % op)
        if g is not None:
            req(np.array_equal(g, base[1], equal_nan=True), "%s through the accessor: sgrid depends on the nodata value passed: %s vs %s" % (
                op, fmt(base[1]), fmt(g)), "%s accessor placeholder dependence (sgrid)" % op)


def sub_gapfill_robust(case, rec=None):
    """Gap filling of the ROBUST cross-validation smoothers: swapping placeholders cannot show a missing cell that is treated as an
    observation of some fixed value (every placeholder is blanked the same way), so the band - the missing cells included - is held
    to the set-valued reference model of the robust algorithm run on the VALID cells only (the model of C05)."""
    from props import c05

    return c05.sub_robust_ref(case, rec)


SUBS = {"placeholder": sub_placeholder, "gapfill": sub_gapfill, "gapfill_robust": sub_gapfill_robust, "passthrough": sub_passthrough, "accessor": sub_accessor}


@st.composite
def smoother_case(draw, variants, nmax=200, few_valid=False, gapfill=False):
    variant = draw(st.sampled_from(variants))
    need = smooth.min_valid(variant)
    s = draw(gens.series(nmin=4 if few_valid else max(4, need), nmax=nmax))
    y, n = s["y"], len(s["y"])
    if few_valid:
        k = draw(st.integers(0, need - 1))
        pos = draw(st.lists(st.integers(0, n - 1), min_size=k, max_size=k, unique=True))
        valid = [i in pos for i in range(n)]
        gcls = "valid=%d" % k
    else:
        classes = [c for c in gens.GAP_CLASSES if c != "none"] if not gapfill else gens.GAP_CLASSES
        g = draw(gens.gap_mask(n, classes=classes, min_valid=need))
        valid, gcls = g["valid"], g["gcls"]
        if gcls == "all_but_k":
            gcls = "all_but_%d" % sum(valid)
    case = {"variant": variant, "y": y, "valid": valid, "ycls": s["cls"], "gcls": gcls}
    if variant in ("gu", "pgu"):
        case["loglam"] = draw(gens.loglam(-3.0, 5.0))
    if variant in smooth.NEEDS_P:
        case["p"] = draw(gens.pvals)
    if variant in smooth.NEEDS_SRANGE:
        case["sr"] = draw(gens.srange(min_count=2 if variant in smooth.GCV else 3, lo=-4.0, hi=6.0))
    if variant == "optvplc":
        case["lc"] = draw(st.one_of(st.floats(-1, 1), st.sampled_from([0.5, 0.7, 0.3, 0.5000000000000001, float("nan")])))
    # placeholder encodings
    kinds = draw(st.lists(st.sampled_from(gens.PLACEHOLDER_KINDS), min_size=2, max_size=3, unique=True))
    encs = []
    for kd in kinds:
        v = gens.placeholder_for(y, valid, kd, draw if kd in ("below", "above") else None)
        v = max(-32768, min(32767, v)) if variant == "optvplc" else v
        if any(valid[i] and y[i] == v for i in range(n)):
            continue
        if all(e["fill"] != v for e in encs):
            encs.append({"fill": v, "nodata": v, "kind": kd})
    if not encs:
        v = min(y) - 1
        encs.append({"fill": v, "nodata": v, "kind": "below"})
    if variant != "optvplc" and not gapfill and draw(st.integers(0, 2)) == 0:
        # very large finite fill values (float rasters commonly use -3.4e38 or 1e20): still "a cell equal to nodata"
        v = draw(st.sampled_from([-1e15, 1e20, -3.4028234663852886e38, 1e12, 1e200, -1.7976931348623157e308]))
        encs.append({"fill": v, "nodata": v, "kind": "huge"})
    if variant in smooth.NONFINITE_OK and not gapfill:
        nd = gens.placeholder_for(y, valid, "below")
        for nf in draw(st.lists(st.sampled_from(["NaN", "Infinity", "-Infinity"]), min_size=0, max_size=2, unique=True)):
            encs.append({"fill": nf, "nodata": nd, "kind": nf})
        if sum(1 for v in valid if not v) >= 2 and draw(st.integers(0, 2)) == 0:
            mix = draw(st.lists(st.sampled_from([None, "NaN", "Infinity", "-Infinity"]), min_size=2, max_size=5).filter(lambda m: len(set(m)) > 1))
            encs.append({"fill": nd, "nodata": nd, "kind": "mixed", "mix": mix})
    if not few_valid and not gapfill and draw(st.integers(0, 9)) == 0:
        # nodata values no cell of the series can hold (a uint16 fill value, NaN as "no gaps", a fractional or huge number) on a
        # gap-free series that contains the values such a number turns into when forced into int16
        case["valid"] = valid = [True] * n
        case["gcls"] = "none_offdomain_nodata"
        y = list(y)
        for i in draw(st.lists(st.integers(0, n - 1), min_size=1, max_size=min(n, 4), unique=True)):
            y[i] = draw(st.sampled_from([-1, 0, -1, 0, 1, -25536, 5536]))
        case["y"] = y
        ok = gens.placeholder_for(y, valid, "below")
        encs = [{"fill": ok, "nodata": ok, "kind": "below"}]
        for v in draw(st.lists(st.sampled_from([65535.0, "NaN", 0.5, -0.5, 40000.0, -60000.0, 65536.0, 1e10]), min_size=1, max_size=3, unique=True)):
            encs.append({"fill": ok, "nodata": v, "kind": "offdomain"})
    case["encodings"] = encs
    return case


def _norm(case):
    for e in case["encodings"]:
        for k in ("fill", "nodata"):
            if isinstance(e[k], str):
                e[k] = float(e[k].replace("Infinity", "inf").replace("NaN", "nan"))
    return case


def run(ctx):
    rec = ctx.rec
    nonrobust = [v for v in smooth.VARIANTS if v not in smooth.ROBUST]

    def f_placeholder(case):
        case = _norm(case)
        missing = not all(case["valid"])
        kinds = sorted({str(e["kind"]) for e in case["encodings"]})
        rec.case("placeholder", case, nontrivial=(missing or case["gcls"] == "none_offdomain_nodata") and len(case["encodings"]) > 1,
                 cls=[case["variant"], "gap:" + case["gcls"]] + ["enc:" + k for k in kinds])
        sub_placeholder(case)

    ctx.given("placeholder", smoother_case(smooth.VARIANTS, nmax=ctx.n(120, 200)), ctx.n(900, 12000), fn=f_placeholder)

    def f_gapfill(case):
        case = _norm(case)
        why = sub_gapfill(case, rec)
        if why:
            rec.discard("gapfill", why)
        rec.case("gapfill", case, nontrivial=(not all(case["valid"])) and why is None,
                 cls=[case["variant"], "gap:" + case["gcls"], "y:" + case["ycls"]])

    ctx.given("gapfill", smoother_case(nonrobust, nmax=ctx.n(120, 200), gapfill=True), ctx.n(700, 10000), fn=f_gapfill)

    @st.composite
    def robust_gap_case(draw):
        from props import c05

        case = draw(st.one_of(c05.gcase(ctx.n(60, 120)), c05.spike_case()))
        y, valid = list(case["y"]), list(case["valid"])
        n = len(y)
        if all(valid) and n >= 7:
            for q in draw(st.lists(st.integers(0, n - 1), min_size=1, max_size=max(1, min(4, n - 6)), unique=True)):
                valid[q] = False
        where = draw(st.sampled_from(["as_is", "below_zero", "across_zero", "below_zero"]))
        if where != "as_is":
            # a level at which "missing = observation of 0" lies ABOVE (or inside) the data, where the robust weights do not reject it
            hi, lo = max(y), min(y)
            shift = (hi + draw(st.integers(50, 3000))) if where == "below_zero" else (hi + lo) // 2
            if lo - shift >= -10000:
                y = [v - shift for v in y]
        case.update({"y": y, "valid": valid, "nodata": gens.placeholder_for(y, valid, draw(st.sampled_from(["below", "above", "inside"]))), "level": where})
        return case

    def f_gapfill_robust(case):
        why = sub_gapfill_robust(case, rec)
        if why:
            rec.discard("gapfill_robust", why)
        rec.case("gapfill_robust", case, nontrivial=(not all(case["valid"])) and why is None,
                 cls=["wcvp_r" if case.get("p") is not None else "wcv_r", "level:" + case["level"], "gaps" if not all(case["valid"]) else "nogaps"])

    ctx.given("gapfill_robust", robust_gap_case(), ctx.n(400, 6000), fn=f_gapfill_robust)

    @st.composite
    def acc_case(draw):
        npx = draw(st.integers(1, 3))
        nt = draw(st.integers(5, 40))
        op = draw(st.sampled_from(["whits", "whitsvc", "whitswcv"]))
        px, vm = [], []
        for _ in range(npx):
            s = draw(gens.series(n=nt, classes=["seasonal", "walk", "iid", "step", "flat_spikes"], vmax=8000))
            y = [v if v != 0 else 1 for v in s["y"]]  # no valid zero, so that 0 can serve as a nodata value
            px.append(y)
            vm.append(draw(gens.gap_mask(nt, classes=["isolated", "runs", "leading", "trailing", "all_but_k"], min_valid=0 if draw(st.integers(0, 5)) == 0 else 5))["valid"])
        allv = {v for y, m in zip(px, vm) for v, ok in zip(y, m) if ok}
        cands = [c for c in (0, -9999, -32768, 12345, 32767, -1) if c not in allv]
        fills = draw(st.lists(st.sampled_from(cands), min_size=2, max_size=3, unique=True))
        if 0 not in fills and draw(st.booleans()):
            fills[0] = 0
        case = {"pixels": px, "valid": vm, "op": op, "dtype": draw(st.sampled_from(["int16", "float64"])), "dims": list(draw(st.permutations(["time", "y", "x"]))),
                "encodings": [{"fill": f, "nodata": f, "kind": "arg"} for f in fills], "attr_nodata": draw(st.sampled_from([-9999, 255, 7])),
                "robust": draw(st.booleans())}
        if op == "whits":
            case["loglam"] = draw(gens.loglam(-2.0, 4.0))
        else:
            case["sr"] = draw(gens.srange(min_count=2 if op == "whitswcv" else 3, lo=-3.0, hi=4.0))
        if draw(st.booleans()):
            case["p"] = draw(gens.pvals)
        return case

    def f_acc(case):
        rec.case("accessor", case, nontrivial=True, cls=["op:" + case["op"], "dtype:" + case["dtype"], "nodata0" if any(e["fill"] == 0 for e in case["encodings"]) else "nonzero"])
        sub_accessor(case)

    ctx.given("accessor", acc_case(), ctx.n(250, 3000), fn=f_acc)

    def f_pass(case):
        case = _norm(case)
        rec.case("passthrough", case, nontrivial=True, cls=[case["variant"], case["gcls"]])
        sub_passthrough(case)

    ctx.given("passthrough", smoother_case(smooth.VARIANTS, nmax=40, few_valid=True), ctx.n(300, 3000), fn=f_pass)


from harness import history as _history  # noqa: E402

_history.install(sys.modules[__name__], {"whits": _history.q_whits, "whitsvc": _history.q_whitsvc, "whitswcv": _history.q_whitswcv},
                 {"whits": _history.WHITS_ARGS, "whitsvc": _history.WHITSVC_ARGS, "whitswcv": _history.WHITSWCV_ARGS}, n=(120, 1500), dtypes=("int16",),
                 attr_values=(-3000, 0, -9999), cells=_history.NDVI_CELLS)
