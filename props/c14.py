"""C14 - no kernel reads or writes outside its arrays on in-contract input."""
from __future__ import annotations

import importlib
import os
import warnings

import numpy as np
from hypothesis import strategies as st

import hdc.algo  # noqa: F401
from harness import twins
from harness.core import HarnessError, Violation
from harness.util import call, req, fmt

PID = "C14"
LEVEL = "exploration"
RULE = ("[seventh seeded round] sub-check 'zone_edit': one zone raster object across several do_mean calls, merged / masked in place in between (fewer zones asked for), under bounds checking, against brand-new copies; entry points that are no longer dispatchers themselves are still exercised. " +
        "The check process runs with NUMBA_BOUNDSCHECK=1 (verified effective at start by a deliberately out-of-range probe). For each of the "
        "discovered programs (35 expected) Hypothesis draws boundary-sized in-contract inputs - series of length 2/3/4/5, one pixel, one "
        "group / one zone / every cell its own group / zone id n-1, window 1 and window == length, all missing / exactly one valid / two valid / "
        "all valid, srange of 2 and 3 entries, the shortest legal template (length 4, one mark) - and mid-sized random in-contract inputs. "
        "Oracles: no IndexError (nor any other exception); every program is run twice - gufuncs into out= buffers pre-filled with two different "
        "poison patterns, njit functions on fresh copies of the inputs - and the two results must be identical (hence every output element is "
        "written and nothing depends on stale memory); inputs are unchanged. Non-trivial: a boundary-sized case (length <= 4, window in "
        "{1, n}, <= 1 valid cell, single group/zone, srange of 2); distinct by content hash. Negative indices wrap before Numba's check, so "
        "reads at index -1 are not detected here (value errors: C01/C17). "
        " Added after the fourth seeded round: Every gufunc gets a third run with strided input views and strided out= rows inside guard buffers (guards intact, result equal); boundary inputs include constant, linear and two-level data.")
ASSUME = ["NUMBA_BOUNDSCHECK=1 makes every out-of-range (non-negative) index of nopython code raise IndexError",
          "negative-index wraparound is outside what this check can see (stated limit)"]

stats = importlib.import_module("hdc.algo.ops.stats")
PROGS = twins.entry_points()
POISON = {"int16": (23130, 9509), "int8": (90, 37), "uint8": (90, 37), "uint32": (0x5A5A5A5A, 0x25252525), "float32": (1.2345e30, -9.87e-20),
          "float64": (1.2345e300, -9.87e-200)}


def assert_boundscheck_on():
    import numba

    if os.environ.get("NUMBA_BOUNDSCHECK") != "1":
        raise HarnessError("NUMBA_BOUNDSCHECK is not set in the check process")

    @numba.njit
    def probe(a, i):
        return a[i]

    try:
        probe(np.zeros(3), 7)
    except IndexError:
        return
    raise HarnessError("NUMBA_BOUNDSCHECK=1 is not effective: an out-of-range read did not raise")


def _series(case, dtype="float64"):
    y = np.array(case["y"], dtype="float64")
    v = np.array(case["valid"], dtype=bool)
    y = y.copy()
    y[~v] = case["nodata"]
    return y.astype(dtype)


def build(case):
    """-> (kind, kernel, ins, outs) ; outs: list of (shape, dtype) for gufuncs, None for njit."""
    name = case["prog"]
    k = PROGS[name]
    nd = float(case["nodata"])
    n = len(case["y"])
    y = _series(case)
    p, lam = case["p"], 10.0 ** case["loglam"]
    sr = np.array(case["sr"], dtype="float64")
    w = np.array(case["valid"], dtype="float64")
    yz = np.where(w > 0, y, 0.0)
    dt = case["dtype"]
    G, N = "gu", "nj"
    if name == "ws2dgu.ws2dgu":
        return G, k, (y, lam if not case["lam0"] else 0.0, nd), [(n, "int16")]
    if name == "ws2dpgu.ws2dpgu":
        return G, k, (y, lam if not case["lam0"] else 0.0, nd, p), [(n, "int16")]
    if name == "ws2doptv.ws2doptv":
        return G, k, (y, nd, sr), [(n, "int16"), ((), "float64")]
    if name == "ws2doptvp.ws2doptvp":
        return G, k, (y, nd, p, sr), [(n, "int16"), ((), "float64")]
    if name == "ws2doptvplc.ws2doptvplc":
        return G, k, (y.astype("int16"), nd, p, case["lc"]), [(n, "int16"), ((), "float64")]
    if name == "ws2dwcv.ws2dwcv":
        return G, k, (y, nd, sr, case["robust"]), [(n, "int16"), ((), "float64")]
    if name == "ws2dwcvp.ws2dwcvp":
        return G, k, (y, nd, p, sr, case["robust"]), [(n, "int16"), ((), "float64")]
    if name == "ws2d.ws2d":
        return (N, k, (yz, lam, w), None) if w.sum() >= 2 else None
    if name == "ws2doptvp._ws2doptvp":
        return (N, k, (yz, w, p, sr), None) if w.sum() >= 2 else None
    if name == "ws2dwcvp._ws2dwcvp":
        return (N, k, (yz, w, p, sr, case["robust"]), None) if w.sum() >= 5 else None
    if name == "ws2doptvplc.ws2doptvplc_tyx":
        yi = y.astype("int16")
        r, c = case["grid"]
        cube = np.ascontiguousarray(np.stack([np.roll(yi, i) for i in range(r * c)], 1).reshape(n, r, c))
        return N, k, (cube, p, int(nd)), None
    # ---- stats
    x = np.abs(y).astype(dt) if dt != "float64" or True else y
    xi = x.copy()
    xi[~np.array(case["valid"], dtype=bool)] = int(nd)
    g = np.array(case["groups"], dtype="int16")
    ng = int(g.max()) + 1
    c0, c1 = case["cal"]
    if name == "stats.brentq":
        s = case["s"]
        a = (3 - s + np.sqrt((s - 3) ** 2 + 24 * s)) / (12 * s)
        return N, k, (a * 0.6, a * 1.4, s), None
    if name == "stats.gammafit":
        return N, k, (xi[c0:c1],), None
    if name == "stats.gammastd":
        return N, k, (xi, int(nd), c0, c1), None
    if name == "stats.gammastd_yxt":
        r, c = case["grid"]
        cube = np.stack([np.roll(xi, i) for i in range(r * c)]).reshape(r, c, n)
        return N, k, (cube, int(nd), c0, c1), None
    if name == "stats.gammastd_grp":
        if dt not in ("int16", "float32"):
            return None
        ci = np.array([[0, max(1, int((g == q).sum()))] for q in range(ng)], dtype="int16")
        return G, k, (xi, g, ng, nd, ci), [(n, "int16")]
    if name in ("stats.mk_score", "stats.mk_variance_s", "stats.mk_sens_slope", "stats.mann_kendall_trend_1d"):
        return N, k, (x,), None
    if name == "stats.mk_z_score":
        return N, k, (case["mk_s"], float(case["mk_v"])), None
    if name == "stats.mk_p_value":
        return N, k, (case["mk_z"],), None
    if name == "stats.mann_kendall_trend_yxt":
        r, c = case["grid"]
        return N, k, (np.stack([np.roll(x, i) for i in range(r * c)]).reshape(r, c, n),), None
    f4 = [((), "float32")] * 3 + [((), "int8")]
    if name == "stats._mann_kendall_trend_gu":
        return (G, k, (x,), f4) if dt in ("int16", "float32") else None
    if name == "stats._mann_kendall_trend_gu_nd":
        return (G, k, (xi, nd), f4) if dt in ("int16", "float32") else None
    if name == "stats.mean_grp":
        return (G, k, (xi, g, ng, nd), [(n, "float32")]) if dt in ("int16", "int32", "int64", "float32") else None
    if name == "stats.rolling_sum":
        return (G, k, (xi, case["window"], nd), [(n, "float32")]) if dt in ("int16", "int64", "float32") else None
    # ---- misc
    if name.startswith("autocorr."):
        if dt.startswith("float"):
            a = y.astype(dt)
            a[~np.array(case["valid"], dtype=bool)] = np.nan
            ndv = None
        else:
            a = y.astype(dt)
            ndv = int(nd)
        if name == "autocorr.autocorr_1d_float":
            return (N, k, (a,), None) if ndv is None else None
        if name == "autocorr.autocorr_1d_int":
            return (N, k, (a, ndv), None) if ndv is not None else None
        if name == "autocorr.autocorr_1d":
            return N, k, ((a, ndv) if ndv is not None else (a,)), None
        r, c = case["grid"]
        cube = np.stack([np.roll(a, i) for i in range(r * c)]).reshape(r, c, n)
        if name == "autocorr.autocorr":
            return N, k, (cube, ndv), None
        return N, k, (np.ascontiguousarray(cube.transpose(2, 0, 1)), ndv), None
    if name == "lroo.lroo":
        return G, k, ((y > np.median(y)).astype("uint8"),), [((), "uint32")]
    if name == "tinterpolate.tinterpolate":
        x16 = y.astype("int16")
        gap, tail, lead = case["gap"], case["tail"], case["lead"]
        m = max(4, lead + gap * (n - 1) + 1 + tail)
        tm = np.zeros(m)
        tm[lead + np.arange(n) * gap] = 1
        lab = (np.arange(m) // case["per"]).astype("int32")
        nper = int(lab.max()) + 1
        return G, k, (x16, tm, lab, np.zeros(nper, "u1")), [(nper, "int16")]
    if name == "zonal.do_mean":
        a = y.astype(dt if dt in ("int16", "float32", "float64") else "int16")
        r, c = case["grid"]
        pix = np.stack([np.roll(a, i) for i in range(r * c)], 1).reshape(n, r, c)
        nz = case["nz"]
        z = np.array([(i * 7 + 1) % nz for i in range(r * c)], dtype="int16").reshape(r, c)
        z[-1, -1] = nz - 1
        znd = case["znd"]
        if znd in (-1, 255) and r * c > 1:
            z[0, 0] = znd  # a pixel outside every zone carries the zone raster's nodata value
        return N, k, (pix, z, nz, int(nd), znd, np.float32 if case["robust"] else np.float64), None
    raise KeyError(name)


_DIRTY = []


def _dirty_heap(rep):
    """Allocate and free small blocks holding junk with Numba's allocator, so that uninitialised work arrays of the next call
    do not find the zeros of a pristine heap."""
    if not _DIRTY:
        import numba

        @numba.njit
        def junk(v):
            t = 0.0
            for k in range(2, 9):
                a = np.empty(k)
                a[:] = v
                t += a[0]
            return t

        _DIRTY.append(junk)
    _DIRTY[0](1e300 * (rep + 1) if rep % 2 else -7.5e-300 * (rep + 1))


def _eq(a, b):
    a, b = np.asarray(a), np.asarray(b)
    return a.shape == b.shape and a.dtype == b.dtype and np.array_equal(a, b, equal_nan=a.dtype.kind == "f")


def sub_program(case):
    name = case["prog"]
    try:
        spec = build(case)
    except KeyError as e:
        if e.args and e.args[0] == name:
            return "no_generator_for_program"  # a helper added later: counted in the evidence, exercised through the entry points that call it
        raise
    if spec is None:
        return "dtype_or_contract_not_applicable"
    kind, k, ins, outs = spec
    keep = [np.array(a, copy=True) if isinstance(a, np.ndarray) else a for a in ins]
    desc = "%s(%s)" % (name, ", ".join(fmt(a, 8) if isinstance(a, np.ndarray) else repr(a) for a in ins))
    results = []
    try:
        with warnings.catch_warnings():
            warnings.simplefilter("ignore")
            for rep in range(2 if len(case["y"]) != 3 else 5):
                _dirty_heap(rep)
                if kind == "gu":
                    bufs = tuple(np.full(s, POISON[d][rep % 2], dtype=d) for s, d in outs)
                    k(*ins, out=bufs if len(bufs) > 1 else bufs[0])
                    results.append(bufs)
                else:
                    args = [np.array(a, copy=True) if isinstance(a, np.ndarray) else a for a in ins]
                    r = k(*args)
                    results.append(r if isinstance(r, tuple) else (r,))
    except IndexError as e:
        raise Violation("%s indexes outside an array: %s" % (desc, str(e)[:200]), signature=name + " out-of-bounds access")
    except Exception as e:  # noqa: BLE001
        raise Violation("%s raised %s: %s" % (desc, type(e).__name__, str(e)[:200]), signature=name + " raised")
    if kind == "gu" and case.get("strided", True):
        # third run: every array argument and every output row is a view with a non-unit stride into a larger buffer whose other
        # cells hold guard values - reads must follow the stride (same result), writes must stay inside the row (guards intact)
        def view(a, guard):
            if not isinstance(a, np.ndarray) or a.ndim == 0 or a.shape[-1] < 1:
                return a, None
            buf = np.empty(a.shape[:-1] + (3 * a.shape[-1],), dtype=a.dtype)
            buf[...] = guard
            v = buf[..., 1::3]
            v[...] = a
            return v, buf

        sins, sbufs = zip(*[view(a, np.roll(a, 1, axis=-1).repeat(3, axis=-1) if isinstance(a, np.ndarray) and a.ndim else 0) for a in ins])
        def obuf(sh, d):
            shp = (sh,) if isinstance(sh, int) else tuple(sh)
            return np.full(shp[:-1] + (3 * shp[-1],) if shp else (), POISON[d][0], dtype=d)

        obufs = [obuf(sh, d) for sh, d in outs]
        oviews = tuple(b[..., 1::3] if b.ndim else b for b in obufs)
        keep_in = [None if b is None else b.copy() for b in sbufs]
        try:
            with warnings.catch_warnings():
                warnings.simplefilter("ignore")
                k(*sins, out=oviews if len(oviews) > 1 else oviews[0])
        except IndexError as e:
            raise Violation("%s with strided arguments indexes outside an array: %s" % (desc, str(e)[:200]), signature=name + " out-of-bounds access")
        except Exception as e:  # noqa: BLE001
            raise Violation("%s with strided arguments raised %s: %s" % (desc, type(e).__name__, str(e)[:200]), signature=name + " raised")
        for b, kb in zip(sbufs, keep_in):
            if b is not None:
                req(_eq(b, kb), "%s modified the buffer behind a strided input view" % desc, name + " modified input")
        for b, v, a, (sh, d) in zip(obufs, oviews, results[0], outs):
            if b.ndim:
                guard = np.ones(b.shape, dtype=bool)
                guard[..., 1::3] = False
                req(bool((b[guard] == np.array(POISON[d][0], dtype=d)).all()),
                    "%s writes outside a strided out= row: %d guard cells between the row's cells were overwritten" % (
                        desc, int((b[guard] != np.array(POISON[d][0], dtype=d)).sum())), name + " writes outside the output row")
            req(_eq(np.array(v), np.asarray(a)), "%s: result through strided views differs from the contiguous call (cells read or written "
                "at the wrong stride): %s vs %s" % (desc, fmt(np.asarray(v), 12), fmt(np.asarray(a), 12)), name + " ignores array strides")
    for extra in results[2:]:
        for a, b in zip(results[0], extra):
            req(_eq(a, b), "%s: repeated runs give different results (an output element is not written, or depends on stale memory): %s vs %s" % (
                desc, fmt(a, 12), fmt(b, 12)), name + " non-deterministic / unwritten output")
    for a, b in zip(results[0], results[1]):
        req(_eq(a, b), "%s: two runs give different results (an output element is not written, or depends on stale memory): %s vs %s" % (
            desc, fmt(a, 12), fmt(b, 12)), name + " non-deterministic / unwritten output")
    for a, b in zip(ins, keep):
        if isinstance(a, np.ndarray):
            req(_eq(a, b), "%s modified its input array" % desc, name + " modified input")
    return None


def sub_accessor_written(case):
    """Accessor level: the grouped mean must write every output cell whatever integer dtype carries the group ids (an unwritten
    cell holds heap garbage, so it cannot equal the model except by accident) and two calls must agree."""
    from props import c17

    c17.sub_mean_grp_accessor(case)
    c17.sub_mean_grp_accessor(case)


def sub_zone_edit(case):
    """One zone raster object across several do_mean calls, edited in place in between (zones merged, so the highest id disappears and
    fewer zones are asked for): no call may index outside its arrays (bounds checking is compiled in) and every call must answer for the
    raster as it is at that moment (oracle: the same call on a brand-new copy)."""
    from hdc.algo.ops import zonal

    r, c = case["grid"]
    nz = int(case["nz"])
    t = int(case.get("t", 2))
    pix = (np.arange(t * r * c).reshape(t, r, c) * 7 % 101).astype(case.get("dtype", "int16"))
    z = np.array([(i * 5 + 1) % nz for i in range(r * c)], dtype=case.get("zdtype", "int16")).reshape(r, c)
    z[-1, -1] = nz - 1
    cur = nz
    znd = 255 if case.get("zdtype") == "uint8" else -1
    for step, op in enumerate(case["ops"]):
        if op == "merge" and cur > 1:
            z[z == cur - 1] = (cur - 2) if case.get("into_neighbour", True) else 0
            cur -= 1
        elif op == "nodata" and cur > 1:
            z[z == cur - 1] = znd  # the highest zone is masked out with the zone raster's nodata value
            cur -= 1
        got = call("do_mean (call %d on the same zone raster, %d zones)" % (step + 1, cur), zonal.do_mean, pix, z, cur, -9999, znd, np.float64)
        want = call("do_mean (brand-new copy)", zonal.do_mean, pix.copy(), z.copy(), cur, -9999, znd, np.float64)
        req(got.shape == want.shape and np.array_equal(got, want, equal_nan=True),
            "do_mean call %d after in-place edits %s of the zone raster: %s, a brand-new copy of the raster gives %s" % (step + 1, case["ops"][:step + 1], fmt(got.ravel(), 12), fmt(want.ravel(), 12)),
            "do_mean stale after zone raster edit")


SUBS = {"zone_edit": sub_zone_edit, "program": sub_program, "accessor_written": sub_accessor_written}

DT = {"stats.gammafit": ["int16", "float32", "float64"], "stats.gammastd": ["int16", "float32", "float64"], "stats.gammastd_yxt": ["int16", "float32", "float64"],
      "stats.gammastd_grp": ["int16", "float32"], "stats.mean_grp": ["float32", "int16", "int32", "int64"], "stats.rolling_sum": ["float32", "int16", "int64"],
      "stats._mann_kendall_trend_gu": ["int16", "float32"], "stats._mann_kendall_trend_gu_nd": ["int16", "float32"],
      "autocorr.autocorr": ["int16", "float32"], "autocorr.autocorr_tyx": ["int16", "float64"], "autocorr.autocorr_1d": ["int16", "int64", "float32"],
      "autocorr.autocorr_1d_int": ["int16", "int32"], "autocorr.autocorr_1d_float": ["float32", "float64"], "zonal.do_mean": ["int16", "float32", "float64"]}
SMOOTHERS_MIN2 = True


@st.composite
def bcase(draw, name, boundary):
    if boundary:
        n = draw(st.sampled_from([2, 3, 4, 5]))
    else:
        n = draw(st.integers(6, 40))
    if name in ("ws2d.ws2d", "ws2doptvp._ws2doptvp", "ws2dwcvp._ws2dwcvp"):
        n = max(n, 4)  # the core is claimed for n >= 4 (C01); the wrappers guard it
    if name == "ws2dwcvp._ws2dwcvp":
        n = max(n, 5)
    if name.startswith("autocorr."):
        n = max(n, 2)
    # degenerate data are boundary input as well: flat and exactly linear pixels take the zero-residual paths of the kernels
    ykind = draw(st.sampled_from(["random", "random", "constant", "linear", "two_levels"]))
    if ykind == "constant":
        y = [draw(st.integers(1, 3000))] * n
    elif ykind == "linear":
        a, b = draw(st.integers(1, 40)), draw(st.integers(1, 1500))
        y = [b + a * t for t in range(n)]
    elif ykind == "two_levels":
        lv = [draw(st.integers(1, 3000)), draw(st.integers(1, 3000))]
        y = [lv[draw(st.integers(0, 9)) == 0] for _ in range(n)]
    else:
        y = draw(st.lists(st.integers(1, 3000), min_size=n, max_size=n))
    vkind = draw(st.sampled_from(["all", "all", "none", "one", "two", "random"]))
    if vkind == "all":
        valid = [True] * n
    elif vkind == "none":
        valid = [False] * n
    elif vkind == "one":
        q = draw(st.integers(0, n - 1))
        valid = [i == q for i in range(n)]
    elif vkind == "two":
        qs = draw(st.lists(st.integers(0, n - 1), min_size=min(2, n), max_size=min(2, n), unique=True))
        valid = [i in qs for i in range(n)]
    else:
        valid = draw(st.lists(st.booleans(), min_size=n, max_size=n))
    if name in ("ws2d.ws2d", "ws2doptvp._ws2doptvp"):
        if sum(valid) < 2:
            valid = [True] * n
    if name == "ws2dwcvp._ws2dwcvp" and sum(valid) < 5:
        valid = [True] * n
    gk = draw(st.sampled_from(["single", "each", "two"]))
    groups = [0] * n if gk == "single" else (list(range(n)) if gk == "each" else [i % 2 for i in range(n)])
    if gk == "two" and n < 2:
        groups = [0] * n
    srn = draw(st.sampled_from([2, 3] if boundary else [2, 3, 8, 16]))
    s0 = draw(st.sampled_from([-2.0, -1.0, 0.0]))
    c0 = draw(st.integers(0, max(0, n - 2)))
    c1 = draw(st.integers(c0 + 1, n))
    r, c = draw(st.sampled_from([(1, 1), (1, 1), (1, 2), (2, 1), (2, 3)]))
    nz = draw(st.sampled_from([1, 2, 3, r * c]))
    return {"prog": name, "dtype": draw(st.sampled_from(DT.get(name, ["float64"]))), "y": y, "valid": valid, "vkind": vkind, "nodata": draw(st.sampled_from([-1, 0, -9999])),
            "p": draw(st.sampled_from([0.5, 0.9, 0.05])), "loglam": draw(st.sampled_from([-3.0, 0.0, 1.0, 5.0])), "lam0": draw(st.integers(0, 9)) == 0,
            "sr": [s0 + 0.5 * i for i in range(srn)], "lc": draw(st.sampled_from([0.2, 0.7, float("nan")])), "robust": draw(st.booleans()),
            "groups": groups, "gk": gk, "window": draw(st.sampled_from([1, n, max(1, n // 2)])), "cal": [c0, c1], "grid": [r, c], "nz": nz,
            "znd": draw(st.sampled_from([-1, nz - 1, 255])), "s": 10 ** draw(st.floats(-3, 0.3)), "mk_s": draw(st.integers(-5, 5)), "mk_v": draw(st.integers(1, 50)),
            "mk_z": draw(st.floats(-4, 4)), "gap": draw(st.sampled_from([1, 2, 5])), "tail": draw(st.integers(0, 3)), "lead": draw(st.integers(0, 3)),
            "per": draw(st.sampled_from([1, 2, 10])), "boundary": boundary, "ykind": ykind}


def run(ctx):
    assert_boundscheck_on()
    rec = ctx.rec

    @st.composite
    def many_groups(draw):
        idt, k = draw(st.sampled_from([("int8", 128), ("int8", 127), ("uint8", 256), ("uint8", 255), ("int16", 300), ("int8", 2), ("uint8", 3)]))
        nt = k * draw(st.sampled_from([1, 2]))
        nd = draw(st.sampled_from([-9999, 0]))
        px = [[nd if draw(st.integers(0, 9)) == 0 else draw(st.integers(-300, 300)) for _ in range(nt)]]
        return {"pixels": px, "dtype": draw(st.sampled_from(["int16", "float32"])), "nodata": nd, "dims": ["time", "y", "x"], "nodata_from": "arg",
                "groups": [t % k for t in range(nt)], "as_array": idt}

    def f_aw(case):
        rec.case("accessor_written", case, nontrivial=True, cls="ids:%s/%d" % (case["as_array"], max(case["groups"]) + 1))
        sub_accessor_written(case)

    ctx.given("accessor_written", many_groups(), ctx.n(14, 150), fn=f_aw, shrink=False)
    ze = st.fixed_dictionaries({"grid": st.tuples(st.integers(1, 6), st.integers(2, 7)).map(list), "nz": st.integers(2, 9), "t": st.integers(1, 3),
                                "dtype": st.sampled_from(["int16", "float32", "float64"]), "zdtype": st.sampled_from(["int16", "uint8", "int32"]),
                                "into_neighbour": st.booleans(), "ops": st.lists(st.sampled_from(["same", "merge", "merge", "nodata"]), min_size=2, max_size=6)})

    def f_ze(case):
        rec.case("zone_edit", case, nontrivial=any(o != "same" for o in case["ops"][1:]), cls=["ops=%d" % len(case["ops"])])
        sub_zone_edit(case)

    ctx.given("zone_edit", ze, ctx.n(60, 600), fn=f_ze, shrink=False)
    names = sorted(PROGS)
    rec.extra["programs"] = len(names)
    rec.extra["boundscheck_verified"] = True
    for name in names:
        def f(case, name=name):
            why = sub_program(case)
            if why:
                rec.discard("program", why)
            rec.case("program", case, nontrivial=case["boundary"] and why is None,
                     cls=["prog:" + name, "n=%d" % min(len(case["y"]), 6), "valid:" + case["vkind"], "y:" + case.get("ykind", "random"), "boundary" if case["boundary"] else "random"])
        ctx.given("program", bcase(name, True), ctx.n(25, 250), fn=f, shrink=False)
        ctx.given("program", bcase(name, False), ctx.n(8, 120), fn=f, shrink=False)
        if name in ("ws2dwcv.ws2dwcv", "ws2dwcvp.ws2dwcvp", "ws2dwcvp._ws2dwcvp"):
            # flat / exactly linear pixels with robust weights: the zero-residual paths of the reweighting loop
            def degen(c):
                n = max(len(c["y"]), 6)
                y = ([c["y"][0]] * n) if c["ykind"] != "linear" else [c["y"][0] + 3 * t for t in range(n)]
                return dict(c, y=y, valid=[True] * n if c["vkind"] != "random" else [t % 4 != 1 for t in range(n)], robust=True, ykind="constant" if c["ykind"] != "linear" else "linear",
                            groups=[0] * n, window=1, cal=[0, n])
            ctx.given("program", bcase(name, False).map(degen), ctx.n(6, 40), fn=f, shrink=False)
        if name.startswith("ws2d"):
            # series of exactly three steps (the shortest the smoothers accept besides two)
            def three(c):
                return dict(c, y=c["y"][:3] if len(c["y"]) >= 3 else (c["y"] * 3)[:3], valid=[True, True, True], groups=[0, 0, 0], window=1, cal=[0, 3])
            if name not in ("ws2d.ws2d", "ws2doptvp._ws2doptvp", "ws2dwcvp._ws2dwcvp", "ws2dwcv.ws2dwcv", "ws2dwcvp.ws2dwcvp", "ws2doptvplc.ws2doptvplc_tyx"):
                ctx.given("program", bcase(name, True).map(three), ctx.n(6, 30), fn=f, shrink=False)
