"""C07 - SPI equals the gamma-MLE / zero-mixture / normal-quantile definition."""
from __future__ import annotations

import sys
import warnings
import math

import numpy as np
import pandas as pd
import xarray as xr
from hypothesis import strategies as st
from scipy.stats import gamma as sgamma

import hdc.algo  # noqa: F401
from hdc.algo.ops import stats
from harness import refs
from harness.util import call, req, fmt

PID = "C07"
LEVEL = "exploration"
RULE = ("[sixth seeded round] sub-check 'groups': 2-3 group sub-series with different zero shares / nodata cells / windows interleaved into one pixel; every group's cells are held to the definition evaluated on that group alone (gammastd_grp kernel and spi(groups=)). " +
        "Hypothesis draws pixel series (n 3..400) as quantile transforms of generated uniforms through gamma(shape 0.05..500, scale "
        "0.1..1e4), stored as float64, int16 (rounded: ties frequent) or float32, with zero inflation 0..0.9, nodata placements, negative "
        "cells, two-valued tie-heavy windows and calibration sub-windows [c0,c1) of >= 2 steps; run through gammafit, gammastd, "
        "gammastd_yxt, gammastd_grp (one group) and DataArray.hdc.algo.spi. Oracle: SciPy evaluation of the definition with an "
        "independent root bracket (Brent on [1e-8,1e15]); int16/float64 inputs: equal except a unit at rounding ties (tie width from "
        "the Phi^-1 amplification); float32 inputs: interval oracle over the alpha range implied by single-precision logarithms. "
        "Cells with |reference| > 7000 are left to C08. Non-trivial: zeros, nodata, proper sub-window, shape outside [0.5,2] or ties; "
        "distinct by content hash. "
        " Added after the fifth seeded round: Generic 'history' sub-check for spi (windows, group arrangements, nodata argument).")
ASSUME = ["scipy.special gammainc / ndtri / digamma (also bound into the compiled code: C13 checks the binding; sub-check 'oracle' "
          "re-evaluates the reference itself with 40-digit mpmath when mpmath is importable - setup_cmd installs it into .deps)", "scipy.optimize.brentq"]


def _arrays(case):
    dt = case["dtype"]
    x = np.array(case["x"], dtype="float64").astype(dt)
    nd = case["nodata"]
    ok = np.array(case["ok"], dtype=bool)
    x = x.copy()
    x[~ok] = nd
    return x, ok, nd


def _window(case, n):
    w = case.get("window")
    return (0, n) if w is None else (int(w[0]), int(w[1]))


def _f32_interval(x32, ok, window, p0, ref):
    """Hull of the index over the alpha interval implied by float32 logarithms. Returns (lo, hi) arrays or None."""
    from scipy.special import gammainc, ndtri

    c0, c1 = window
    sel = np.zeros(x32.size, dtype=bool)
    sel[c0:c1] = True
    pos = x32[sel & ok & (x32 > 0)].astype(np.float64)
    logs = np.log(pos)
    delta = float(np.mean(2.0 * np.spacing(np.abs(logs).astype(np.float32)).astype(np.float64) + 1e-12))
    s = ref["s"]
    if s - delta <= 0:
        return None
    lo_a, hi_a = refs.gamma_alpha(s + delta), refs.gamma_alpha(s - delta)
    if lo_a is None or hi_a is None:
        return None
    mean = float(pos.mean())
    usable = ref["usable"]
    xs = x32.astype(np.float64)[usable]
    vals = []
    for a in np.geomspace(lo_a, hi_a, 9):
        with np.errstate(all="ignore"):
            vals.append(1000.0 * ndtri(p0 + (1 - p0) * gammainc(a, xs / (mean / a))))
    vals = np.array(vals)
    lo = np.full(x32.size, np.nan)
    hi = np.full(x32.size, np.nan)
    lo[usable] = np.floor(vals.min(axis=0)) - 1
    hi[usable] = np.ceil(vals.max(axis=0)) + 1
    return lo, hi


def _compare(what, got, x, ok, nd, window, case, rec=None, scaled=True):
    """got: per-cell result (int16 scaled by 1000, or float unscaled). Returns discard reason or None."""
    ref = refs.spi_reference(x.astype(np.float64), ok, window)
    if ref["fittable"] is not True:
        return "outside_c07: " + ref["reason"]
    idx = ref["index"]
    usable = ref["usable"]
    g = np.asarray(got, dtype=np.float64)
    if not scaled:
        g = g * 1000.0
    # nodata / negative cells
    bad = ~usable
    req(bool((np.asarray(got)[bad] == nd).all()) if bad.any() else True,
        "%s: nodata/negative cells must yield nodata: %s" % (what, fmt(np.asarray(got)[bad])), what.split(" ")[0] + " nodata cells")
    desc = "(n=%d, dtype=%s, alpha=%.6g, beta=%.6g, p0=%.3g, window=%s)" % (x.size, case["dtype"], ref["alpha"], ref["beta"], ref["p0"], window)
    judge = usable & np.isfinite(idx) & (np.abs(idx) <= 7000)
    if case["dtype"] == "float32":
        iv = _f32_interval(x, ok, window, ref["p0"], ref)
        if iv is None:
            return "float32_interval_unbounded"
        lo, hi = iv
        j = judge & np.isfinite(lo) & (np.abs(lo) < 7000) & (np.abs(hi) < 7000)
        out = j & ((g < lo) | (g > hi))
        if out.any():
            k = int(np.nonzero(out)[0][0])
            req(False, "%s: float32 input cell %d (x=%r): result %r outside the interval [%g, %g] implied by single-precision logs %s" % (
                what, k, float(x[k]), float(g[k]), lo[k], hi[k], desc), what.split(" ")[0] + " float32 outside interval")
        return None
    tau = refs.spi_tie_width(idx, ref["alpha"], ref.get("alpha_rel_tol"))
    if scaled:
        r = np.rint(idx)
        d = g - r
        frac = np.abs(idx - np.floor(idx) - 0.5)
        wrong = judge & (tau < 0.25) & ((np.abs(d) > 1) | ((d != 0) & (frac > tau)))
        if rec is not None:
            rec.ties += int((judge & (d != 0) & ~wrong).sum())
    else:
        wrong = judge & (tau < 0.25) & (np.abs(g - idx) > tau)
    if wrong.any():
        k = int(np.nonzero(wrong)[0][0])
        req(False, "%s: cell %d (x=%r): result %r, SciPy reference 1000*z = %.6f %s" % (what, k, float(x[k]), float(g[k]), idx[k], desc),
            what.split(" ")[0] + " differs from reference")
    if (judge & (tau >= 0.25)).any():
        return "some_cells_unresolvable"
    return None


def sub_fit(case):
    x, ok, nd = _arrays(case)
    c0, c1 = _window(case, x.size)
    seg = x[c0:c1]
    pos = seg[(seg > 0) & ok[c0:c1]]
    if np.unique(pos).size < 2:
        return "outside_c07"
    a, b = call("gammafit", stats.gammafit, np.where(ok[c0:c1], seg, 0).astype(x.dtype))
    s = refs.gamma_s(pos.astype(np.float64))
    if not s > 0:
        return "outside_c07"
    ar = refs.gamma_alpha(s)
    if ar is None:
        return "outside_c07"
    br = float(pos.astype(np.float64).mean()) / ar
    if case["dtype"] == "float32":
        logs = np.log(pos.astype(np.float64))
        delta = float(np.mean(2.0 * np.spacing(np.abs(logs).astype(np.float32)).astype(np.float64) + 1e-12))
        if s - delta <= 0:
            return "float32_interval_unbounded"
        lo, hi = refs.gamma_alpha(s + delta), refs.gamma_alpha(s - delta)
        req(a != 0 and lo * (1 - 1e-6) <= a <= hi * (1 + 1e-6), "gammafit(float32): alpha %r outside [%r, %r]" % (a, lo, hi), "gammafit float32")
        return None
    tol = refs.gamma_alpha_rel_tol(pos.astype(np.float64), s)
    req(a != 0, "gammafit found no root (returned 0) where the MLE alpha is %r (s=%r, n=%d)" % (ar, s, pos.size), "gammafit no root")
    req(abs(a - ar) <= tol * ar and abs(b - br) <= 2 * tol * br,
        "gammafit: (alpha, beta) = (%r, %r), SciPy MLE (%r, %r) (s=%r, %d positives)" % (a, b, ar, br, s, pos.size), "gammafit differs from MLE")
    return None


def sub_spi(case, rec=None):
    x, ok, nd = _arrays(case)
    n = x.size
    win = _window(case, n)
    path = case["path"]
    if path == "gammastd":
        got = call("gammastd", stats.gammastd, x, nd, win[0], win[1])
        return _compare("gammastd", got, x, ok, nd, win, case, rec, scaled=False)
    if path == "yxt":
        cube = np.stack([x, x[::-1].copy()]).reshape(2, 1, n) if case.get("twin_pixel") else x.reshape(1, 1, n)
        got = call("gammastd_yxt", stats.gammastd_yxt, cube, nd, win[0], win[1])
        req(got.dtype == np.int16 and got.shape == cube.shape, "gammastd_yxt returns %s %s" % (got.dtype, got.shape), "gammastd_yxt type")
        return _compare("gammastd_yxt", got[0, 0], x, ok, nd, win, case, rec)
    if path == "grp":
        if case["dtype"] == "float64":
            return "grp_has_no_float64_signature"
        got = call("gammastd_grp", stats.gammastd_grp, x, np.zeros(n, dtype="int16"), 1, float(nd), np.array([win], dtype="int16"))
        return _compare("gammastd_grp", got, x, ok, nd, win, case, rec)
    # accessor: the window is given by dates on the axis
    t = pd.date_range("2001-01-01", periods=n, freq="10D")
    da = xr.DataArray(x.reshape(n, 1, 1), dims=("time", "y", "x"), coords={"time": t}, attrs={"nodata": nd})
    kw = {}
    if case.get("window") is not None:
        # the same window expressed by dates on or BETWEEN the 10-day steps (begin up to 9 days early, end up to 9 days late)
        b_off, e_off = int(case.get("begin_early", 0)) % 10, int(case.get("end_late", 0)) % 10
        kw = {"calibration_begin": str((t[win[0]] - pd.Timedelta(days=b_off)).date()), "calibration_end": str((t[win[1] - 1] + pd.Timedelta(days=e_off)).date())}
    if case.get("decoy") and n >= 4:
        # an EARLIER spi() call in this process with the same window arguments on another cube whose time axis has the same first step,
        # last step and length but different steps in between: nothing of it may carry over to the call that is judged
        t2 = pd.DatetimeIndex([t[0] + pd.Timedelta(days=(5 if case["decoy"] == "dense_start" else 1) * i) for i in range(n - 1)] + [t[-1]])
        if case["decoy"] == "dense_end":
            t2 = pd.DatetimeIndex([t[0]] + [t[-1] - pd.Timedelta(days=3 * (n - 1 - i)) for i in range(1, n)])
        da2 = xr.DataArray(x[::-1].copy().reshape(n, 1, 1), dims=("time", "y", "x"), coords={"time": t2}, attrs={"nodata": nd})
        try:
            with warnings.catch_warnings():
                warnings.simplefilter("ignore")
                da2.hdc.algo.spi(**kw)
        except Exception:  # noqa: BLE001 - the window may be invalid on the other axis; only what it leaves behind matters
            pass
    res = call("hdc.algo.spi", lambda: da.hdc.algo.spi(**kw))
    req(res.dtype == np.int16, "spi() dtype %s" % res.dtype, "spi dtype")
    return _compare("spi()", res.transpose("y", "x", "time").values[0, 0], x, ok, nd, win, case, rec)


def sub_oracle(case):
    """Second opinion on the oracle itself: the SciPy special functions it relies on (digamma in the root equation, the regularised
    incomplete gamma function, the inverse normal CDF) against 40-digit mpmath evaluations at the parameters of this case."""
    try:
        import mpmath as mp
    except ImportError:
        return "mpmath_unavailable"
    x, ok, nd = _arrays(case)
    win = _window(case, x.size)
    ref = refs.spi_reference(x.astype(np.float64), ok, win)
    if ref["fittable"] is not True:
        return "outside_c07"
    mp.mp.dps = 40
    a, b, p0 = mp.mpf(ref["alpha"]), mp.mpf(ref["beta"]), mp.mpf(ref["p0"])
    # the root: log(a) - digamma(a) == s to the accuracy alpha is claimed to
    s_mp = mp.log(a) - mp.digamma(a)
    req(abs(float(s_mp) - ref["s"]) <= 1e-12 * max(1.0, abs(ref["s"])) + 2 * ref["alpha_rel_tol"] * ref["s"],
        "oracle: log(a)-digamma(a) at the SciPy root a=%r is %r in mpmath, s=%r" % (ref["alpha"], float(s_mp), ref["s"]), "oracle digamma/root")
    usable = np.nonzero(ref["usable"])[0]
    for i in usable[:: max(1, len(usable) // 6)]:
        v = ref["index"][i]
        if not np.isfinite(v) or abs(v) > 7000:
            continue
        prob = p0 + (1 - p0) * mp.gammainc(a, 0, mp.mpf(float(x[i])) / b, regularized=True)
        if prob <= 0 or prob >= 1:
            continue
        z = mp.sqrt(2) * mp.erfinv(2 * prob - 1)
        tau = float(refs.spi_tie_width(np.array([v]), ref["alpha"], ref["alpha_rel_tol"])[0])
        req(abs(float(1000 * z) - v) <= tau, "oracle: SciPy gives 1000*z = %.9f, mpmath %.9f for x=%r (alpha=%r, beta=%r, p0=%r)" % (
            v, float(1000 * z), float(x[i]), ref["alpha"], ref["beta"], ref["p0"]), "oracle gammainc/ndtri")
    return None


def sub_groups(case, rec=None):
    """Two or three group sub-series with their own zero shares, nodata cells and calibration windows, interleaved into ONE pixel
    series: every group's cells must carry the definition's index of THAT group's sub-series (its own fit, its own p0)."""
    parts = case["parts"]
    dt, nd = parts[0]["dtype"], parts[0]["nodata"]
    arrs = [_arrays(dict(p, dtype=dt, nodata=nd)) for p in parts]
    order = np.array(case["order"], dtype="int16")
    n = order.size
    x = np.empty(n, dtype=dt)
    for g, (xg, _, _) in enumerate(arrs):
        req(int((order == g).sum()) == xg.size, "harness: order does not match the part sizes", "harness")
        x[order == g] = xg
    wins = [_window(p, a[0].size) for p, a in zip(parts, arrs)]
    if case["path"] == "grp":
        got = call("gammastd_grp", stats.gammastd_grp, x, order, len(parts), float(nd), np.array(wins, dtype="int16"))
    else:
        # the accessor takes ONE window for all groups (by date): only generated when every part has the default window
        t = pd.date_range("2001-01-01", periods=n, freq="10D")
        da = xr.DataArray(x.reshape(n, 1, 1), dims=("time", "y", "x"), coords={"time": t}, attrs={"nodata": nd})
        names = case.get("names") or list(range(len(parts)))
        res = call("hdc.algo.spi(groups=)", lambda: da.hdc.algo.spi(groups=[names[g] for g in order]))
        got = res.transpose("y", "x", "time").values[0, 0]
    why = None
    for g, ((xg, okg, _), p) in enumerate(zip(arrs, parts)):
        w = _compare("gammastd_grp group %d of %d (%s)" % (g, len(parts), case["path"]), np.asarray(got)[order == g], xg, okg, nd, wins[g], dict(p, dtype=dt), rec)
        why = why or w
    return why


SUBS = {"fit": sub_fit, "spi": sub_spi, "oracle": sub_oracle, "groups": sub_groups}

_u = st.floats(1e-6, 1 - 1e-6)


@st.composite
def pixel(draw, nmax, paths=("gammastd", "yxt", "grp", "accessor"), dtypes=("float64", "int16", "float32")):
    n = draw(st.one_of(st.integers(3, 12), st.integers(3, nmax)))
    dtype = draw(st.sampled_from(list(dtypes)))
    kind = draw(st.sampled_from(["gamma", "gamma", "gamma", "two_values", "few_values", "zeros90"]))
    if kind == "zeros90":
        # exactly 90 % zeros among the valid cells: the property still promises the fit ("at most 90 % zeros")
        n = draw(st.sampled_from([20, 30, 40]))
        x = np.zeros(n)
        pos = draw(st.lists(st.integers(0, n - 1), min_size=n // 10, max_size=n // 10, unique=True))
        vals = draw(st.lists(st.integers(1, 3000), min_size=n // 10, max_size=n // 10, unique=True))
        for q, v in zip(pos, vals):
            x[q] = float(v)
        case = {"x": x.tolist(), "ok": [True] * n, "dtype": dtype, "nodata": draw(st.sampled_from([-9999, -32768])), "kind": "zeros90",
                "zeros": n - n // 10, "path": draw(st.sampled_from(paths))}
        if case["path"] == "yxt":
            case["twin_pixel"] = draw(st.booleans())
        return case
    if kind == "gamma":
        shape = 10 ** draw(st.floats(math.log10(0.05), math.log10(500)))
        scale = 10 ** draw(st.floats(-1, 4))
        us = draw(st.lists(_u, min_size=n, max_size=n))
        x = sgamma.ppf(np.array(us), shape) * scale
        x = np.maximum(x, 1e-30)
        if dtype == "int16":
            m = x.max()
            if m > 30000:
                x = x * (30000 / m)
            x = np.rint(x)
        cls = "shape<0.5" if shape < 0.5 else "shape<=2" if shape <= 2 else "shape>2"
    elif kind == "two_values":
        a = draw(st.integers(1, 3000))
        b = a + draw(st.integers(1, 3000))
        x = np.array(draw(st.lists(st.sampled_from([a, b]), min_size=n, max_size=n)), dtype=float)
        cls = "two_values"
    else:
        vals = draw(st.lists(st.integers(1, 5000), min_size=3, max_size=5, unique=True))
        x = np.array(draw(st.lists(st.sampled_from(vals), min_size=n, max_size=n)), dtype=float)
        cls = "few_values"
    x = x.astype(dtype).astype("float64")
    # zero inflation
    zf = draw(st.sampled_from([0.0, 0.0, 0.1, 0.3, 0.6, 0.85, 0.9]))
    nz = int(zf * n)
    if nz:
        for q in draw(st.lists(st.integers(0, n - 1), min_size=nz, max_size=nz, unique=True)):
            x[q] = 0.0
    ok = [True] * n
    nnd = draw(st.sampled_from([0, 0, 1, 2, n // 4]))
    for q in draw(st.lists(st.integers(0, n - 1), min_size=nnd, max_size=nnd, unique=True)):
        ok[q] = False
    nneg = draw(st.sampled_from([0, 0, 0, 1, 2]))
    for q in draw(st.lists(st.integers(0, n - 1), min_size=nneg, max_size=nneg, unique=True)):
        x[q] = -float(draw(st.integers(1, 500)))
    case = {"x": x.tolist(), "ok": ok, "dtype": dtype, "nodata": draw(st.sampled_from([-9999, -32768])), "kind": cls,
            "zeros": nz, "path": draw(st.sampled_from(paths))}
    if draw(st.booleans()):
        c0 = draw(st.integers(0, n - 2))
        c1 = draw(st.integers(c0 + 2, n))
        case["window"] = [c0, c1]
        case["begin_early"] = draw(st.sampled_from([0, 0, 3, 9]))
        case["end_late"] = draw(st.sampled_from([0, 0, 4, 9]))
    if case["path"] == "yxt":
        case["twin_pixel"] = draw(st.booleans())
    if case["path"] == "accessor" and draw(st.booleans()):
        case["decoy"] = draw(st.sampled_from(["dense_start", "dense_end", "daily_start"]))
    return case


def _nontrivial(case):
    return case["zeros"] > 0 or not all(case["ok"]) or case.get("window") is not None or case["kind"] != "shape<=2"


def run(ctx):
    rec = ctx.rec

    def f_fit(case):
        why = sub_fit(case)
        if why:
            rec.discard("fit", why)
        rec.case("fit", case, nontrivial=_nontrivial(case) and why is None, cls=["dtype:" + case["dtype"], "kind:" + case["kind"]])

    ctx.given("fit", pixel(ctx.n(150, 400)), ctx.n(800, 10000), fn=f_fit)

    def f_spi(case):
        why = sub_spi(case, rec)
        if why:
            rec.discard("spi", why.split(":")[0])
        rec.case("spi", case, nontrivial=_nontrivial(case) and why is None,
                 cls=["dtype:" + case["dtype"], "kind:" + case["kind"], "path:" + case["path"], "zeros" if case["zeros"] else "nozeros",
                      "window" if case.get("window") else "full"] + (["after_a_call_on_another_axis_with_the_same_ends"] if case.get("decoy") else []))

    ctx.given("spi", pixel(ctx.n(150, 400)), ctx.n(1500, 20000), fn=f_spi)

    @st.composite
    def grouped(draw):
        dt = draw(st.sampled_from(["int16", "float32"]))
        k = draw(st.sampled_from([2, 2, 3]))
        parts = [draw(pixel(40, paths=("grp",), dtypes=(dt,))) for _ in range(k)]
        path = draw(st.sampled_from(["grp", "grp", "accessor"]))
        if path == "accessor":
            for p in parts:
                p.pop("window", None)
        sizes = [len(p["x"]) for p in parts]
        how = draw(st.sampled_from(["blocked", "shuffled", "shuffled"]))
        order = [g for g, m in enumerate(sizes) for _ in range(m)]
        if how == "shuffled":
            order = draw(st.permutations(order))
        case = {"parts": parts, "order": list(order), "path": path}
        if path == "accessor":
            case["names"] = draw(st.sampled_from([None, ["wet", "dry", "mid"], ["10", "2", "7"]]))
        return case

    def f_grp(case):
        why = sub_groups(case, rec)
        if why:
            rec.discard("groups", why.split(":")[0])
        zs = sorted({round(p["zeros"] / max(1, len(p["x"])), 2) for p in case["parts"]})
        rec.case("groups", case, nontrivial=len(zs) > 1 and why is None,
                 cls=["path:" + case["path"], "k=%d" % len(case["parts"]), "zero_shares_differ" if len(zs) > 1 else "zero_shares_equal",
                      "windows" if any(p.get("window") for p in case["parts"]) else "full"])

    ctx.given("groups", grouped(), ctx.n(500, 6000), fn=f_grp)

    def f_or(case):
        why = sub_oracle(case)
        if why:
            rec.discard("oracle", why)
        rec.case("oracle", case, nontrivial=why is None, cls=["kind:" + case["kind"]])

    ctx.given("oracle", pixel(60), ctx.n(120, 1500), fn=f_or, shrink=False)


from harness import history as _history  # noqa: E402

_history.install(sys.modules[__name__], {"spi": _history.q_spi}, {"spi": _history.spi_args}, n=(100, 1200), dtypes=("int16", "float32"), nt=(12, 24),
                 attrs0={"nodata": -9999}, cells=st.one_of(st.integers(1, 3000), st.integers(1, 40), st.sampled_from([-9999, 0])))
