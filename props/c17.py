"""C17 - rolling sum and grouped mean reduce exactly the valid cells."""
from __future__ import annotations

import sys
import itertools

import numpy as np
import pandas as pd
import xarray as xr
from hypothesis import strategies as st
from numpy.lib.stride_tricks import sliding_window_view

import hdc.algo  # noqa: F401
from hdc.algo.ops import stats
from harness.util import call, req, fmt

PID = "C17"
LEVEL = "exploration"
RULE = ("Enumerated completely: every series over {ND,-1,0,1,2} of length 1..8 x every window 1..length through the compiled "
        "rolling_sum gufunc for ND in {-9999, 0, 7} (cells equal to ND are missing by definition); every series of length 1..5 x every "
        "labeling onto groups 0..k-1 (length 6: canonical set partitions) through mean_grp. Generated: longer series over "
        "int16/int32/int64/float32 with |partial sums| < 2^24, accessor level (window trimming, nodata from argument vs attrs, dims "
        "order). Oracle, set-valued where the property is: complete window without ND -> exact sum; all ND -> ND; mixed -> ND or the "
        "sum of the valid cells; mean_grp -> mean of the group's non-ND cells or ND; outputs for two ND choices agree after mapping "
        "ND<->ND'. Non-trivial: the series contains ND next to valid cells; distinct by (series, window). "
        " Added after the fourth seeded round: float32 series with cells of 1e20 / 3e38 / 2^40 among small numbers (every window without such a cell stays exact). "
        " Added after the fifth seeded round: Sentinels at the edge of the dtype (float32 minimum, 9.97e36, int64 minimum); generic 'history' sub-check for rolling.sum / mean_grp.")
ASSUME = ["numpy sliding_window_view / integer sums as model"]
EXHAUSTIVE_WHOLE = False

ALPHA = ("ND", -1, 0, 1, 2)


def model_rolling(x, w, nd):
    """x (N,L) float64 -> (sum of valid, count valid) for every complete window, shape (N, L-w+1)."""
    win = sliding_window_view(x, w, axis=1)
    valid = win != nd
    return np.where(valid, win, 0).sum(axis=2), valid.sum(axis=2)


def check_rolling(x, w, nd, out, what="rolling_sum"):
    """Vectorised set-valued oracle. Returns index (row, pos) of the first bad cell or None."""
    sv, cnt = model_rolling(x.astype(np.float64), w, nd)
    o = out[:, w - 1:].astype(np.float64)
    nd_out = float(np.float32(nd))  # nodata is echoed in the float32 output (2147483647 comes back as 2147483648.0)
    ok = np.where(cnt == w, o == sv, np.where(cnt == 0, o == nd_out, (o == nd_out) | (o == sv)))
    # windows holding a cell beyond 2^24 have no exactly representable float32 sum: only their nodata behaviour is decided here;
    # every window WITHOUT such a cell must still be exact, whatever passed through earlier windows
    win = sliding_window_view(x.astype(np.float64), w, axis=1)
    huge = ((np.abs(win) > 2.0 ** 24) & (win != nd)).any(axis=2)
    ok = ok | (huge & (cnt > 0))
    if ok.all():
        return None
    r, c = np.argwhere(~ok)[0]
    return int(r), int(c)


def sub_rolling(case):
    x = np.array(case["x"], dtype=case.get("dtype", "int16"))
    nd, w = case["nodata"], int(case["window"])
    out = call("rolling_sum", stats.rolling_sum, x, w, nd)
    req(out.dtype == np.float32 and out.shape == x.shape, "rolling_sum returns %s %s" % (out.dtype, out.shape), "rolling type")
    bad = check_rolling(x.reshape(1, -1), w, nd, out.reshape(1, -1))
    if bad is not None:
        c = bad[1]
        win = x[c:c + w]
        valid = win[win != nd]
        req(False, "rolling_sum(window=%d, nodata=%r) of %s: window %s -> %r; allowed: %s" % (
            w, nd, fmt(x, 20), fmt(win, 12), float(out[c + w - 1]),
            ("the exact sum %r" % float(valid.sum())) if valid.size == w else ("nodata" if valid.size == 0 else "nodata or the sum of the valid cells %r" % float(valid.sum()))),
            "rolling amalgam" if 0 < valid.size < w else "rolling wrong sum")


def model_mean_grp(x, groups, k, nd):
    out = np.empty(len(x), dtype=np.float64)
    for g in range(k):
        m = [i for i in range(len(x)) if groups[i] == g]
        vals = [float(x[i]) for i in m if x[i] != nd]
        v = sum(vals) / len(vals) if vals else float(nd)
        for i in m:
            out[i] = v
    return out


def sub_mean_grp(case):
    x = np.array(case["x"], dtype=case.get("dtype", "int16"))
    g = np.array(case["groups"], dtype="int16")
    k = int(g.max()) + 1
    nd = case["nodata"]
    out = call("mean_grp", stats.mean_grp, x, g, k, nd)
    want = model_mean_grp(x.tolist(), g.tolist(), k, nd)
    req(out.dtype == np.float32, "mean_grp dtype %s" % out.dtype, "mean_grp type")
    req(np.array_equal(out, want.astype(np.float32)), "mean_grp(nodata=%r) of %s with groups %s = %s, mean of valid cells per group = %s" % (
        nd, fmt(x, 16), fmt(g, 16), fmt(out, 16), fmt(want.astype(np.float32), 16)), "mean_grp value")


def sub_rolling_accessor(case):
    arr = np.array(case["pixels"], dtype=case["dtype"])   # (npix, nt)
    npx, nt = arr.shape
    nd, w = case["nodata"], int(case["window"])
    da = xr.DataArray(arr.reshape(npx, 1, nt), dims=("y", "x", "time"), coords={"time": pd.date_range("2000-01-01", periods=nt, freq="D")})
    da = da.transpose(*case["dims"])
    kw = {}
    if case["nodata_from"] == "attrs":
        da.attrs["nodata"] = nd
    elif case["nodata_from"] == "both":
        da.attrs["nodata"] = nd + 5  # the argument wins
        kw["nodata"] = nd
    else:
        kw["nodata"] = nd
    res = call("rolling.sum", lambda: da.hdc.rolling.sum(w, **kw))
    req(res.dims[-1] == "time" and res.sizes["time"] == nt - w + 1, "rolling.sum dims %s sizes %s (nt=%d, window=%d)" % (res.dims, dict(res.sizes), nt, w),
        "rolling trimming")
    req(np.array_equal(res["time"].values, da["time"].values[w - 1:]), "rolling.sum time coordinate is not the last nt-w+1 steps", "rolling trimming")
    req(res.dtype == np.float32, "rolling.sum dtype %s" % res.dtype, "rolling dtype")
    out = res.transpose("y", "x", "time").values.reshape(npx, nt - w + 1)
    full = np.concatenate([np.full((npx, w - 1), np.float32(nd), dtype=np.float32), out], axis=1)
    bad = check_rolling(arr, w, nd, full)
    if bad is not None:
        r, c = bad
        req(False, "rolling.sum(window=%d, nodata=%r): pixel %s window %s -> %r" % (w, nd, fmt(arr[r], 20), fmt(arr[r, c:c + w], 12), float(out[r, c])),
            "rolling accessor value")


def sub_mean_grp_accessor(case):
    arr = np.array(case["pixels"], dtype=case["dtype"])
    npx, nt = arr.shape
    nd = case["nodata"]
    g = np.array(case["groups"], dtype="int16")
    da = xr.DataArray(arr.reshape(npx, 1, nt), dims=("y", "x", "time"), coords={"time": pd.date_range("2000-01-01", periods=nt, freq="D")})
    da = da.transpose(*case["dims"])
    garg = g.astype(case["as_array"]) if case.get("as_array") else g.tolist()
    if case["nodata_from"] == "attrs":
        da.attrs["nodata"] = nd
        res = call("mean_grp", lambda: da.hdc.algo.mean_grp(garg))
    elif case["nodata_from"] == "both":
        da.attrs["nodata"] = nd + 5  # the argument wins over the attribute
        res = call("mean_grp", lambda: da.hdc.algo.mean_grp(garg, nodata=nd))
    else:
        res = call("mean_grp", lambda: da.hdc.algo.mean_grp(garg, nodata=nd))
    req(res.dims[-1] == "time" and res.sizes["time"] == nt, "mean_grp dims %s" % (res.dims,), "mean_grp dims")
    out = res.transpose("y", "x", "time").values.reshape(npx, nt)
    k = int(g.max()) + 1
    for r in range(npx):
        want = model_mean_grp(arr[r].tolist(), g.tolist(), k, nd).astype(np.float32)
        req(np.array_equal(out[r].astype(np.float32), want), "hdc.algo.mean_grp pixel %s groups %s -> %s, model %s" % (
            fmt(arr[r], 14), fmt(g, 14), fmt(out[r], 14), fmt(want, 14)), "mean_grp accessor value")


SUBS = {"rolling": sub_rolling, "mean_grp": sub_mean_grp, "rolling_accessor": sub_rolling_accessor, "mean_grp_accessor": sub_mean_grp_accessor}


def _all_series(L, nd):
    sym = np.array([nd, -1, 0, 1, 2], dtype=np.int16)
    idx = np.array(list(itertools.product(range(5), repeat=L)), dtype=np.int8)
    return sym[idx], idx


def _enum_rolling(ctx, Lmax):
    rec = ctx.rec
    outs = {}
    for nd in (-9999, 0, 7):
        for L in range(1, Lmax + 1):
            x, idx = _all_series(L, nd)
            mixed_rows = ((x == nd).any(axis=1) & (x != nd).any(axis=1))
            for w in range(1, L + 1):
                out = call("rolling_sum", stats.rolling_sum, x, w, nd)
                bad = check_rolling(x, w, nd, out)
                if bad is not None:
                    ctx.run_case("rolling", {"x": x[bad[0]].tolist(), "nodata": nd, "window": w, "dtype": "int16"})
                    return False
                if nd in (-9999, 7):
                    outs[(nd, L, w)] = out
                rec.case("rolling", None, count=x.shape[0], cls="enum_nd=%d" % nd)
                rec.bulk_nontrivial("rolling", {("r", nd, L, w, int(i)) for i in np.nonzero(mixed_rows)[0][:200000]})
            if L == 3:
                rec.case("rolling", {"x": x[7].tolist(), "nodata": nd, "window": 2}, count=0)
    # nodata-value metamorphic: ND=-9999 vs ND=7 on the same symbol series
    for (nd, L, w), o1 in outs.items():
        if nd != -9999:
            continue
        o2 = outs[(7, L, w)]
        m1 = np.where(o1 == -9999, np.nan, o1)
        m2 = np.where(o2 == 7, np.nan, o2)
        same = (m1 == m2) | (np.isnan(m1) & np.isnan(m2))
        # a legitimate sum may equal 7 only if ... sums over {-1,0,1,2} up to 8 cells can reach 7: exclude those cells
        sv, cnt = model_rolling(_all_series(L, 7)[0].astype(np.float64), w, 7)
        amb = np.zeros_like(same)
        amb[:, w - 1:] = (sv == 7) & (cnt > 0)
        if not (same | amb)[:, w - 1:].all():
            r, c = np.argwhere(~(same | amb)[:, w - 1:])[0]
            x1 = _all_series(L, -9999)[0][r]
            req(False, "rolling_sum depends on the numeric nodata value: series %s window %d gives %s with ND=-9999 but %s with ND=7" % (
                fmt(x1), w, fmt(o1[r]), fmt(o2[r])), "rolling nodata dependence")
    rec.exhaustive_parts.append("rolling_sum: all series over {ND,-1,0,1,2} of length 1..%d x all windows x ND in {-9999,0,7}" % Lmax)
    return True


def _labelings(L, canonical):
    out = []
    for t in itertools.product(range(L), repeat=L):
        m = max(t)
        if len(set(t)) != m + 1:
            continue
        if canonical:
            seen, ok = -1, True
            for v in t:
                if v > seen + 1:
                    ok = False
                    break
                seen = max(seen, v)
            if not ok:
                continue
        out.append(t)
    return out


def _enum_mean_grp(ctx, Lmax):
    rec = ctx.rec
    # ND = 3 and ND = 1 can be reached by partial sums of the valid cells (and ND = 1 also turns the symbol 1 into a missing cell)
    for nd in (-9999, 0, 3, 1):
        for L in range(1, Lmax + 1):
            if nd in (3, 1) and L > 5:
                continue
            x, _ = _all_series(L, nd)
            labs = _labelings(L, canonical=(L >= 6))
            for g in labs:
                ga = np.array(g, dtype="int16")
                k = int(ga.max()) + 1
                out = call("mean_grp", stats.mean_grp, x, ga, k, nd)
                # vectorised model
                want = np.empty(x.shape, dtype=np.float64)
                for grp in range(k):
                    m = ga == grp
                    sub = x[:, m].astype(np.float64)
                    valid = sub != nd
                    cnt = valid.sum(axis=1)
                    sm = np.where(valid, sub, 0).sum(axis=1)
                    with np.errstate(all="ignore"):
                        v = np.where(cnt > 0, sm / np.maximum(cnt, 1), nd)
                    want[:, m] = v[:, None]
                if not np.array_equal(out, want.astype(np.float32)):
                    r = int(np.argwhere(out != want.astype(np.float32))[0][0])
                    ctx.run_case("mean_grp", {"x": x[r].tolist(), "groups": list(g), "nodata": nd, "dtype": "int16"})
                    return False
                rec.case("mean_grp", None, count=x.shape[0], cls="enum_nd=%d" % nd)
            mixed = int(((x == nd).any(axis=1) & (x != nd).any(axis=1)).sum())
            rec.bulk_nontrivial("mean_grp", {("m", nd, L, i) for i in range(min(mixed * len(labs), 300000))})
    rec.case("mean_grp", {"x": [1, -9999, 2, 0], "groups": [0, 1, 0, 1], "nodata": -9999}, count=0)
    rec.exhaustive_parts.append("mean_grp: all series over {ND,-1,0,1,2} of length 1..%d x all labelings onto 0..k-1 (length 6: set partitions), ND in {-9999,0} (ND in {3,1}: length <= 5)" % Lmax)
    return True


DT_BOUNDS = {"int16": 30000, "int32": 100000, "int64": 100000, "float32": 100000}


@st.composite
def long_series(draw, dtypes, nmax, grouped=False):
    dtype = draw(st.sampled_from(dtypes))
    n = draw(st.one_of(st.integers(1, 12), st.integers(1, nmax)))
    nd = draw(st.sampled_from([-9999, 0, -32768, 255, 7, 3, 100]))
    if dtype in ("float32", "int64") and draw(st.integers(0, 4)) == 0:
        # sentinels at the edge of the dtype (GDAL / netCDF defaults): many orders of magnitude above the data
        nd = draw(st.sampled_from([-3.4028234663852886e38, 9.969209968386869e36, -1.0000000200408773e20] if dtype == "float32" else [-9223372036854775808, -9223372036854775808, 2 ** 62]))
    vmax = min(DT_BOUNDS[dtype], (2 ** 24 - 1) // max(n, 1))
    p_nd = draw(st.sampled_from([0, 10, 30, 60]))
    x = [nd if draw(st.integers(0, 99)) < p_nd else draw(st.integers(-vmax, vmax)) for _ in range(n)]
    if dtype == "float32" and not grouped and n >= 3 and draw(st.integers(0, 3)) == 0:
        # extreme dynamic range: one or two cells of 1e20 / 3e38 / 2^40 among small numbers (each window is summed on its own)
        for q in draw(st.lists(st.integers(0, n - 1), min_size=1, max_size=2, unique=True)):
            x[q] = draw(st.sampled_from([1e20, -1e20, 3.0e38, float(2 ** 40), -float(2 ** 33)]))
    return dtype, n, nd, x


def run(ctx):
    rec = ctx.rec
    if not _enum_rolling(ctx, 8):
        return
    if not _enum_mean_grp(ctx, ctx.n(5, 6)):
        return

    @st.composite
    def roll_case(draw):
        dtype, n, nd, x = draw(long_series(["int16", "int64", "float32"], ctx.n(80, 400)))
        return {"x": x, "dtype": dtype, "nodata": nd, "window": draw(st.one_of(st.integers(1, n), st.sampled_from([1, n])))}

    def f_r(case):
        x = case["x"]
        mixed = any(v == case["nodata"] for v in x) and any(v != case["nodata"] for v in x)
        rec.case("rolling", case, nontrivial=mixed, cls=["gen_dtype:" + case["dtype"], "mixed" if mixed else "pure"])
        sub_rolling(case)

    ctx.given("rolling", roll_case(), ctx.n(800, 10000), fn=f_r)

    @st.composite
    def grp_case(draw):
        dtype, n, nd, x = draw(long_series(["int16", "int32", "int64", "float32"], ctx.n(60, 300), grouped=True))
        k = draw(st.integers(1, min(n, 12)))
        base = list(range(k)) + [draw(st.integers(0, k - 1)) for _ in range(n - k)]
        groups = draw(st.permutations(base))
        return {"x": x, "dtype": dtype, "nodata": nd, "groups": list(groups)}

    def f_g(case):
        x = case["x"]
        mixed = any(v == case["nodata"] for v in x) and any(v != case["nodata"] for v in x)
        rec.case("mean_grp", case, nontrivial=mixed, cls=["gen_dtype:" + case["dtype"], "mixed" if mixed else "pure"])
        sub_mean_grp(case)

    ctx.given("mean_grp", grp_case(), ctx.n(600, 8000), fn=f_g)

    @st.composite
    def acc_case(draw, grouped):
        dtype = draw(st.sampled_from(["int16", "int64", "float32"] if not grouped else ["int16", "int32", "int64", "float32"]))
        nt = draw(st.integers(1, 30))
        npx = draw(st.integers(1, 3))
        nd = draw(st.sampled_from([-9999, 0, 255]))
        if dtype == "int64" and draw(st.booleans()):
            nd = draw(st.sampled_from([2147483647, 16777217, -2147483647, 2 ** 40 + 1]))  # not representable in float32
        vmax = min(DT_BOUNDS[dtype], (2 ** 24 - 1) // nt)
        px = [[nd if draw(st.integers(0, 9)) < 3 else draw(st.integers(-vmax, vmax)) for _ in range(nt)] for _ in range(npx)]
        case = {"pixels": px, "dtype": dtype, "nodata": nd, "dims": list(draw(st.permutations(["time", "y", "x"]))),
                "nodata_from": draw(st.sampled_from(["attrs", "arg", "both"]))}
        if grouped:
            k = draw(st.integers(1, min(nt, 6)))
            base = list(range(k)) + [draw(st.integers(0, k - 1)) for _ in range(nt - k)]
            case["groups"] = list(draw(st.permutations(base)))
            case["as_array"] = draw(st.sampled_from([None, "int16", "int8", "uint8"]))  # ids must cast safely to the kernel's int16
        else:
            case["window"] = draw(st.integers(1, nt))
        return case

    def f_ra(case):
        rec.case("rolling_accessor", case, nontrivial=True, cls=["dtype:" + case["dtype"], "nodata_from:" + case["nodata_from"]])
        sub_rolling_accessor(case)

    ctx.given("rolling_accessor", acc_case(False), ctx.n(200, 3000), fn=f_ra)

    def f_ga(case):
        rec.case("mean_grp_accessor", case, nontrivial=True, cls=["dtype:" + case["dtype"], "nodata_from:" + case["nodata_from"]])
        sub_mean_grp_accessor(case)

    ctx.given("mean_grp_accessor", acc_case(True), ctx.n(200, 3000), fn=f_ga)

    @st.composite
    def many_groups(draw):
        # as many groups as the id dtype can just hold (int8: 128 ids, uint8: 256 ids), every time step its own group or pairs
        idt, k = draw(st.sampled_from([("int8", 128), ("int8", 127), ("uint8", 256), ("uint8", 255), ("int16", 300)]))
        nt = k * draw(st.sampled_from([1, 2]))
        nd = draw(st.sampled_from([-9999, 0]))
        px = [[nd if draw(st.integers(0, 9)) == 0 else draw(st.integers(-300, 300)) for _ in range(nt)]]
        return {"pixels": px, "dtype": draw(st.sampled_from(["int16", "float32"])), "nodata": nd, "dims": ["time", "y", "x"], "nodata_from": "arg",
                "groups": [t % k for t in range(nt)], "as_array": idt}

    ctx.given("mean_grp_accessor", many_groups(), ctx.n(12, 120), fn=f_ga, shrink=False)


from harness import history as _history  # noqa: E402

_history.install(sys.modules[__name__], {"rolling_sum": _history.q_rolling, "mean_grp": _history.q_mean_grp},
                 {"rolling_sum": _history.ROLLING_ARGS, "mean_grp": _history.MEAN_GRP_ARGS}, n=(200, 2500), dtypes=("int16", "int32", "float32"),
                 attr_values=(-9999, 0, 255), cells=st.one_of(st.integers(-300, 300), st.sampled_from([-9999, 0, 255])))
