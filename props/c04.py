"""C04 - V-curve selection is optimal on the grid and self-consistent."""
from __future__ import annotations

import sys
import math

import numpy as np
import pandas as pd
import xarray as xr
from hypothesis import strategies as st

import hdc.algo  # noqa: F401
from hdc.algo import ops
from hdc.algo.ops.ws2doptvplc import ws2doptvplc_tyx
from harness import gens, refs, smooth
from harness.util import call, req, fmt

PID = "C04"
LEVEL = "exploration"
RULE = ("[seventh seeded round] sub-check 'blocks': whitsvc on 16 equally shaped dask blocks evaluated by 4-16 threads at once (three times) must equal the in-memory result. " +
        "Hypothesis draws series (10 classes, n 5..200) x gap pattern (>=2 valid) x uniformly spaced srange (3..40 entries, "
        "any start/step with lambda in [1e-4,1e6]) x p or none for ws2doptv/ws2doptvp; int16 series x lc in [-1,1] U "
        "{0.5, 0.5+ulp, NaN} for ws2doptvplc; small int16 cubes for ws2doptvplc_tyx; cubes x dims orders for whitsvc. "
        "Oracles: log10(lopt) is a midpoint of consecutive grid entries (1e-9) and lies in the near-minimiser set of an "
        "independent V-curve model (LAPACK solves, warm-started IRLS), tolerance calibrated from the disagreement of two "
        "LAPACK solvers; band == fixed-lambda smoother at lopt bit for bit; sgrid == float32(log10 lopt); lc selects "
        "the -2..1.0 grid iff lc > 0.5, else 0..3.0 (NaN included). Non-trivial: grid != arange(-2,2) or gaps or n not in "
        "{5,10}; distinct by content hash. Series whose reference V-curve is not finite or not resolvable are counted "
        "and only held to the self-consistency oracles. "
        " Added after the fourth seeded round: The lc path is also run with nodata values outside int16 (65535, NaN, fractions) on gap-free series holding the wrapped values. "
        " Added after the fifth seeded round: Generic 'history' sub-check for whitsvc.")
ASSUME = ["LAPACK banded Cholesky / LU as reference solvers", "selection ties accepted within the calibrated tolerance (DESIGN 2.5)"]


def near_min_set(y, valid, llas, p):
    """-> (set of admissible k, status). status None | 'nonfinite' | 'unresolvable'."""
    a = refs.vcurve(y, valid, llas, p, solver=refs.banded_solve)
    if not a["finite"]:
        return None, "nonfinite_vcurve"
    b = refs.vcurve(y, valid, llas, p, solver=refs.lu_solve)
    if not b["finite"]:
        return None, "nonfinite_vcurve"
    va, vb = a["v"], b["v"]
    noise = float(np.max(np.abs(va - vb)))
    vmin = float(va.min())
    tol = 1e-7 * abs(vmin) + 50 * noise + 1e-12
    spread = float(va.max() - vmin)
    if va.size > 1 and tol > 0.05 * spread:
        return None, "unresolvable_vcurve"
    return {int(k) for k in np.nonzero(va <= vmin + tol)[0]}, None


def _check_lopt(what, lopt, llas, y, valid, p):
    """Midpoint + optimality. Returns discard reason or None."""
    req(np.isfinite(lopt) and lopt > 0, "%s: reported lambda %r" % (what, lopt), what + " lopt not positive")
    mids = (np.asarray(llas)[:-1] + np.asarray(llas)[1:]) / 2
    ll = math.log10(lopt)
    k = int(np.argmin(np.abs(mids - ll)))
    req(abs(mids[k] - ll) <= 1e-9 * max(1.0, abs(ll)),
        "%s: log10(lopt)=%.12g is not the midpoint of two consecutive grid entries (grid %s)" % (what, ll, fmt(llas, 6)),
        what + " lopt not a grid midpoint")
    cand, status = near_min_set(y, valid, llas, p)
    if status:
        return status
    req(k in cand, "%s: reported lambda 10^%.6g (interval %d) is not a V-curve minimiser; reference minimisers %s "
        "(grid start %.6g step %.6g count %d, n=%d, %d valid, p=%r)" % (what, ll, k, sorted(cand), llas[0], llas[1] - llas[0], len(llas),
                                                                         len(y), int(np.sum(valid)), p), what + " lopt not optimal")
    return None


def _check_band(what, band, y_filled, nd, lopt, p):
    if p is None:
        want = ops.ws2dgu(np.asarray(y_filled, dtype="float64"), lopt, float(nd))
    else:
        want = ops.ws2dpgu(np.asarray(y_filled, dtype="float64"), lopt, float(nd), float(p))
    req(np.array_equal(np.asarray(band), want),
        "%s: band differs from the fixed-lambda smoother at the reported lambda %r: %s vs %s" % (what, lopt, fmt(band), fmt(want)),
        what + " band != fixed smoother at lopt")


def sub_vcurve(case):
    y = np.array(case["y"], dtype="float64")
    valid = np.array(case["valid"], dtype=bool)
    nd = float(case["nodata"])
    yy = y.copy()
    yy[~valid] = nd
    llas = gens.srange_array(case["sr"])
    p = case.get("p")
    variant = "optvp" if p is not None else "optv"
    out, lopt = smooth.run_variant(variant, yy, nd, {"llas": llas, "p": p})
    why = _check_lopt("ws2d" + variant, lopt, llas, y, valid, p)
    _check_band("ws2d" + variant, out, yy, nd, lopt, p)
    return why


def sub_lcgrid(case):
    y = np.array(case["y"], dtype="int16")
    valid = np.array(case["valid"], dtype=bool)
    nd = case["nodata"]
    yy = y.copy()
    if isinstance(nd, str) or float(nd) != int(float(nd)) or not -32768 <= float(nd) <= 32767:
        nd = float(nd)  # a nodata value no int16 cell can hold (uint16 fill value, NaN, fraction): every cell is an observation
        assert valid.all()
    else:
        nd = int(nd)
        yy[~valid] = nd
    lc = float(case["lc"])
    p = float(case["p"])
    out, lopt = smooth.run_variant("optvplc", yy, nd, {"p": p, "lc": lc})
    grid = smooth.LC_GRID_HI if lc > 0.5 else smooth.LC_GRID_LO
    why = _check_lopt("ws2doptvplc(lc=%r)" % lc, lopt, grid, y.astype(float), valid, p)
    _check_band("ws2doptvplc", out, yy.astype("float64"), nd, lopt, p)
    return why


def sub_tyx(case):
    """ws2doptvplc_tyx: grid from the pixel's own lag-1 correlation."""
    pix = np.array(case["pixels"], dtype="int16")  # (npix, nt)
    vm = np.array(case["valid"], dtype=bool)
    nd = int(case["nodata"])
    p = float(case["p"])
    pix = pix.copy()
    pix[~vm] = nd
    nr, nc = case["shape"]
    tyx = np.ascontiguousarray(pix.T.reshape(pix.shape[1], nr, nc))
    zz, lopts = call("ws2doptvplc_tyx", ws2doptvplc_tyx, tyx, p, nd)
    req(zz.shape == tyx.shape and lopts.shape == (nr, nc), "tyx shapes %s %s" % (zz.shape, lopts.shape), "tyx shape")
    why = None
    for k in range(pix.shape[0]):
        i, j = divmod(k, nc)
        v = vm[k]
        if v.sum() < 2:
            req(lopts[i, j] == 0 and not zz[:, i, j].any(), "tyx pixel with %d valid cells: lopt %r band %s" % (
                int(v.sum()), lopts[i, j], fmt(zz[:, i, j])), "tyx unfittable pixel")
            continue
        lc = refs.autocorr(pix[k].astype(float), v)
        if abs(lc - 0.5) < 1e-6:
            # On the threshold the side is decided by the library's own lag-1 correlation of this pixel (its accuracy is C15's
            # business); what C04 demands is that the grid follows it - for this pixel, whatever its neighbours are.
            lc_impl = float(ops.autocorr_1d(pix[k], nd))
            if abs(lc_impl - lc) > 1e-9:
                why = why or "lc_at_threshold"
                continue
            lc = lc_impl
        grid = smooth.LC_GRID_HI if lc > 0.5 else smooth.LC_GRID_LO
        w = _check_lopt("ws2doptvplc_tyx pixel %d (lag-1 r=%.4f)" % (k, lc), float(lopts[i, j]), grid, pix[k].astype(float), v, p)
        why = why or w
        _check_band("ws2doptvplc_tyx pixel %d" % k, zz[:, i, j], pix[k].astype("float64"), nd, float(lopts[i, j]), p)
    return why


def sub_accessor(case):
    ny, nx = case["shape"]
    pix = np.array(case["pixels"], dtype="float64")
    vm = np.array(case["valid"], dtype=bool)
    nd = case["nodata"]
    pix[~vm] = nd
    nt = pix.shape[1]
    cube = pix.reshape(ny, nx, nt).astype(case["dtype"])
    da = xr.DataArray(cube, dims=("y", "x", "time"), coords={"time": pd.date_range("2010-01-01", periods=nt, freq="10D")},
                      name=case.get("name"))
    da = da.transpose(*case["dims"])
    p = case.get("p")
    if case["mode"] == "lc":
        lcv = np.array([float(v) for v in case["lc"]]).reshape(ny, nx)
        lc = xr.DataArray(lcv, dims=("y", "x"))
        ds = call("whitsvc(lc=)", lambda: da.hdc.whit.whitsvc(nd, lc=lc, p=p))
    else:
        llas = gens.srange_array(case["sr"])
        ds = call("whitsvc(srange=)", lambda: da.hdc.whit.whitsvc(nd, srange=llas, p=p))
    req(isinstance(ds, xr.Dataset), "whitsvc returns %s" % type(ds).__name__, "whitsvc type")
    bname = case.get("name") or "band"
    req(set(ds.data_vars) == {bname, "sgrid"}, "whitsvc data variables %s, expected {%s, sgrid}" % (sorted(ds.data_vars), bname),
        "whitsvc naming")
    req(ds["sgrid"].dtype == np.float32, "sgrid dtype %s" % ds["sgrid"].dtype, "sgrid dtype")
    req(ds[bname].dtype == np.int16, "band dtype %s" % ds[bname].dtype, "band dtype")
    band = ds[bname].transpose("y", "x", "time").values
    sg = ds["sgrid"].transpose("y", "x").values
    for i in range(ny):
        for j in range(nx):
            yy = cube[i, j]
            if case["mode"] == "lc":
                o, l = ops.ws2doptvplc(yy.astype("int16"), float(nd), float(p), float(lcv[i, j]))
            elif p:
                o, l = ops.ws2doptvp(yy.astype("float64"), float(nd), float(p), llas)
            else:
                o, l = ops.ws2doptv(yy.astype("float64"), float(nd), llas)
            req(np.array_equal(band[i, j], o), "whitsvc band of pixel (%d,%d) differs from the kernel on that pixel's series" % (i, j),
                "whitsvc band")
            with np.errstate(divide="ignore"):
                want = np.float32(np.log10(l))
            req(sg[i, j] == want or (np.isnan(sg[i, j]) and np.isnan(want)),
                "whitsvc sgrid (%d,%d) = %r, float32(log10(lopt)) = %r" % (i, j, sg[i, j], want), "whitsvc sgrid")


def sub_blocks(case):
    """whitsvc on a cube cut into equally shaped dask blocks, evaluated by several threads at once, against the in-memory call."""
    from harness import lazyblocks

    ny, nx, nt = case["shape"]
    rng = np.random.default_rng(int(case["salt"]))  # a pure function of the case
    t = np.arange(nt)
    cube = (3000 + 2000 * np.sin(2 * np.pi * (t[None, None, :] / 12.0 + rng.random((ny, nx, 1)))) + rng.normal(0, 300, (ny, nx, nt))).astype("int16")
    cube[rng.random((ny, nx, nt)) < 0.1] = -3000
    da = xr.DataArray(cube, dims=("y", "x", "time"), coords={"time": pd.date_range("2010-01-01", periods=nt, freq="10D")}).transpose(*case["dims"])
    if case.get("dtype", "int16") != "int16":
        da = da.astype(case["dtype"])
    sr = np.arange(-2.0, 2.1, 0.4)
    kw = {"srange": sr}
    if case.get("p") is not None:
        kw["p"] = case["p"]
    lazyblocks.check("whitsvc(%s)" % ", ".join(sorted(kw)), lambda d: d.hdc.whit.whitsvc(-3000, **kw), da, {"y": case["block"], "x": case["block"], "time": -1},
                     workers=case.get("workers", 8), repeats=case.get("repeats", 3))


SUBS = {"vcurve": sub_vcurve, "lcgrid": sub_lcgrid, "tyx": sub_tyx, "accessor": sub_accessor, "blocks": sub_blocks}

LCS = st.one_of(st.floats(-1, 1), st.sampled_from([0.5, 0.5000000000000001, 0.49999999999999994, 0.7, 0.3, 1.0, -1.0, 0.0]),
                st.just("NaN"))


# constant / linear series have no finite V-curve (log 0): kept, but rare - C06 owns them
VCLASSES = [c for c in gens.SERIES_CLASSES if c not in ("constant", "linear")] * 4 + ["constant", "linear"]


@st.composite
def vcase(draw, nmax, lc=False):
    s = draw(gens.series(nmin=5, nmax=nmax, classes=VCLASSES))
    n = len(s["y"])
    g = draw(gens.gap_mask(n, min_valid=2 if draw(st.integers(0, 7)) == 0 else min(n, 5)))
    nd = gens.placeholder_for(s["y"], g["valid"], draw(st.sampled_from(gens.PLACEHOLDER_KINDS)))
    case = {"y": s["y"], "valid": g["valid"], "nodata": nd, "ycls": s["cls"], "gcls": g["gcls"]}
    if lc:
        case["lc"] = draw(LCS)
        case["p"] = draw(gens.pvals)
        if draw(st.integers(0, 7)) == 0:
            # gap-free int16 series with a nodata value outside what int16 can hold; the series contains the values such a number
            # turns into when it is forced into int16
            y = list(s["y"])
            for i in draw(st.lists(st.integers(0, n - 1), min_size=1, max_size=min(n, 4), unique=True)):
                y[i] = draw(st.sampled_from([-1, 0, -1, 0, 1, -25536, 5536]))
            case.update(y=y, valid=[True] * n, gcls="none_offdomain_nodata",
                        nodata=draw(st.sampled_from([65535.0, "NaN", 0.5, -0.5, 40000.0, -60000.0, 65536.0])))
    else:
        case["sr"] = draw(gens.srange(min_count=3, lo=-4.0, hi=6.0))
        if draw(st.booleans()):
            case["p"] = draw(gens.pvals)
    return case


@st.composite
def cube_case(draw, accessor):
    ny, nx = draw(st.integers(1, 3)), draw(st.integers(1, 3))
    nt = draw(st.integers(5, 60))
    pix, val = [], []
    if not accessor and draw(st.integers(0, 3)) == 0:
        # pixels sitting exactly on the lag-1 = 0.5 threshold next to strongly autocorrelated ones
        nt = 6
        ny, nx = draw(st.integers(1, 4)), draw(st.integers(2, 4))
        for q in range(ny * nx):
            if draw(st.booleans()):
                pix.append(draw(gens.exact_half_series()))
            else:
                a0, sl = draw(st.integers(-3000, 3000)), draw(st.integers(50, 400))
                pix.append([a0 + sl * t + draw(st.integers(-5, 5)) for t in range(nt)])  # ramp: lag-1 close to 1
            val.append([True] * nt)
        return {"shape": [ny, nx], "pixels": pix, "valid": val, "nodata": -32768, "p": draw(gens.pvals), "exact_half": True}
    for _ in range(ny * nx):
        s = draw(gens.series(n=nt, classes=["seasonal", "walk", "iid", "step", "constant", "few_values"]))
        g = draw(gens.gap_mask(nt, min_valid=0 if draw(st.integers(0, 9)) == 0 else 2))
        pix.append(s["y"])
        val.append(g["valid"])
    case = {"shape": [ny, nx], "pixels": pix, "valid": val, "nodata": draw(st.sampled_from([-32768, -11000, 11000])),
            "p": draw(gens.pvals)}
    if accessor:
        case["dims"] = list(draw(st.permutations(["time", "y", "x"])))
        case["name"] = draw(st.sampled_from([None, "ndvi"]))
        case["mode"] = draw(st.sampled_from(["lc", "srange", "srange"]))
        if case["mode"] == "lc":
            case["dtype"] = "int16"
            case["lc"] = draw(st.lists(LCS, min_size=ny * nx, max_size=ny * nx))
        else:
            case["dtype"] = draw(st.sampled_from(["int16", "float32", "float64"]))
            case["sr"] = draw(gens.srange(min_count=3, lo=-4.0, hi=6.0))
            if draw(st.booleans()):
                case.pop("p")
    return case


def _trivial(case):
    sr = case.get("sr")
    std = sr is not None and sr["start"] == -2.0 and sr["step"] == 1.0 and sr["count"] == 4
    return std and all(case["valid"]) and len(case["y"]) in (5, 10)


def run(ctx):
    rec = ctx.rec

    def f_v(case):
        why = sub_vcurve(case)
        if why:
            rec.discard("vcurve", why)
        rec.case("vcurve", case, nontrivial=(not _trivial(case)) and why is None,
                 cls=["optvp" if "p" in case else "optv", "gap:" + case["gcls"], "y:" + case["ycls"], "count=%s" % min(case["sr"]["count"], 10)])

    ctx.given("vcurve", vcase(ctx.n(120, 200)), ctx.n(900, 12000), fn=f_v)

    def f_lc(case):
        why = sub_lcgrid(case)
        if why:
            rec.discard("lcgrid", why)
        lc = float(case["lc"])
        rec.case("lcgrid", case, nontrivial=why is None,
                 cls=["lc:NaN" if lc != lc else ("lc>0.5" if lc > 0.5 else "lc<=0.5"), "gap:" + case["gcls"]])

    ctx.given("lcgrid", vcase(ctx.n(100, 200), lc=True), ctx.n(400, 6000), fn=f_lc)

    def f_tyx(case):
        why = sub_tyx(case)
        if why:
            rec.discard("tyx", why)
        rec.case("tyx", case, nontrivial=True, cls=["pixels=%d" % len(case["pixels"])] + (["exact_half_threshold"] if case.get("exact_half") else []))

    ctx.given("tyx", cube_case(False), ctx.n(120, 2000), fn=f_tyx)

    def f_acc(case):
        rec.case("accessor", case, nontrivial=True, cls=["mode:" + case["mode"], "dims:" + "/".join(case["dims"]),
                                                         "named" if case.get("name") else "unnamed", "p" if "p" in case else "nop"])
        sub_accessor(case)

    ctx.given("accessor", cube_case(True), ctx.n(150, 2000), fn=f_acc)

    # equally shaped dask blocks in flight at the same time (state shared between concurrently running blocks)
    for k in range(ctx.n(3, 12)):
        case = {"shape": [32, 32, 36], "block": 8, "salt": ctx.seed * 13 + k, "p": [None, 0.9, 0.5][k % 3], "workers": [8, 16, 4][k % 3],
                "dims": [["time", "y", "x"], ["y", "x", "time"], ["y", "time", "x"]][k % 3], "dtype": ["int16", "float64", "float32"][k % 3], "repeats": 3}
        ctx.rec.case("blocks", case, nontrivial=True, cls="blocks:p=%r" % case["p"])
        if not ctx.run_case("blocks", case):
            break


from harness import history as _history  # noqa: E402

_history.install(sys.modules[__name__], {"whitsvc": _history.q_whitsvc}, {"whitsvc": _history.WHITSVC_ARGS}, n=(100, 1200), dtypes=("int16", "float64"),
                 attr_values=(-3000, 0, -9999), cells=_history.NDVI_CELLS)
