"""C08 - SPI preserves the ordering of observations and never wraps or crashes."""
from __future__ import annotations

import sys
import math

import numpy as np
import pandas as pd
import xarray as xr
from hypothesis import strategies as st

import hdc.algo  # noqa: F401
from hdc.algo.ops import stats
from harness import refs
from harness.util import call, req, fmt

PID = "C08"
LEVEL = "exploration"
RULE = ("Hypothesis draws pixels whose calibration data are ordinary gamma-like or low-variance (shape up to 1e4) with extreme outliers "
        "(ratios 1e-300..1e6 of the calibration mean) and bad pixels (all nodata, all negative, all zero, constant, >90 % zeros, no "
        "positive value in the window), alone and mixed in one cube, as int16 / float32 / float64, through gammastd_yxt, gammastd_grp "
        "and DataArray.hdc.algo.spi (with and without groups). Validity oracles: outputs non-decreasing in x within a pixel(-group), "
        "equal x => equal output; where the float64 definition gives +-inf or leaves int16 the output is +32767 / -32767|-32768, never "
        "a mid-range value; nodata and negative cells -> nodata; unfittable pixel -> nodata everywhere; no exception; each pixel of a "
        "mixed cube equals its stand-alone result. Non-trivial: an index beyond +-3000, a bad pixel, or zeros present; distinct by hash. "
        " Added after the fifth seeded round: Generic 'history' sub-check for spi.")
ASSUME = ["SciPy evaluation of the definition decides which cells must saturate (cells within 1.5 units of the int16 limit accept both)"]

BAD_KINDS = ["all_nodata", "all_negative", "all_zero", "constant", "zeros95", "no_positive_in_window", "neg_and_nodata"]


def _run_path(path, cube, nd, win, groups=None):
    """cube: (npix, nt) array. Returns (npix, nt) int16."""
    npx, nt = cube.shape
    if path == "yxt":
        return call("gammastd_yxt", stats.gammastd_yxt, cube.reshape(npx, 1, nt), nd, win[0], win[1]).reshape(npx, nt)
    if path == "grp":
        g = np.zeros(nt, dtype="int16") if groups is None else np.asarray(groups, dtype="int16")
        ng = int(g.max()) + 1
        ci = np.array([[win[0], win[1]]] * ng, dtype="int16") if groups is None else np.array(win, dtype="int16")
        return call("gammastd_grp", stats.gammastd_grp, cube, g, ng, float(nd), ci)
    t = pd.date_range("2001-01-01", periods=nt, freq="10D")
    da = xr.DataArray(cube.reshape(npx, 1, nt), dims=("y", "x", "time"), coords={"time": t}, attrs={"nodata": nd})
    kw = {"calibration_begin": str(t[win[0]].date()), "calibration_end": str(t[win[1] - 1].date())}
    res = call("hdc.algo.spi", lambda: da.hdc.algo.spi(**kw))
    return res.transpose("y", "x", "time").values.reshape(npx, nt)


def _check_pixel(what, x, out, nd, win, dtype):
    """Validity predicates for one pixel. x: stored values (dtype), out: int16."""
    xs = x.astype(np.float64)
    ok = x != nd
    usable = ok & (xs >= 0)
    o = out.astype(np.int64)
    desc = "(dtype=%s, window=%s, x=%s -> out=%s)" % (dtype, win, fmt(xs, 14), fmt(o, 14))
    if (~usable).any():
        req(bool((o[~usable] == nd).all()), "%s: nodata/negative cells must yield nodata %s" % (what, desc), what + " nodata cells")
    ref = refs.spi_reference(xs, ok, win)
    if ref["fittable"] is False:
        req(bool((o == nd).all()), "%s: unfittable pixel (%s) must be nodata everywhere %s" % (what, ref["reason"], desc), what + " unfittable pixel")
        return "bad_pixel"
    # ordering (for every fittable or degenerate pixel)
    xu, ou = xs[usable], o[usable]
    order = np.argsort(xu, kind="stable")
    xo, oo = xu[order], ou[order]
    same = np.diff(xo) == 0
    req(bool((np.diff(oo)[same] == 0).all()), "%s: equal observations received different indices %s" % (what, desc), what + " equal x unequal index")
    if (oo == nd).all():
        req(not (ref["fittable"] is True and dtype != "float32"), "%s: a fittable pixel (p0=%.3g <= 0.9, >= 2 distinct positives in the window) "
            "came back as nodata everywhere %s" % (what, ref.get("p0", -1), desc), what + " fittable pixel dropped")
        return "degenerate_all_nodata" if ref["fittable"] is None else None
    if ref["fittable"] is True and oo.size >= 2 and (oo == oo[0]).all():
        spread = float(np.nanmax(ref["index"][usable]) - np.nanmin(ref["index"][usable]))
        req(spread < 200 or not np.isfinite(spread), "%s: every observation receives the same non-nodata index %d although the definition spreads "
            "them over %.0f units %s" % (what, int(oo[0]), spread, desc), what + " constant garbage")
    dec = np.diff(oo) < 0
    if dec.any():
        k = int(np.nonzero(dec)[0][0])
        tol_ok = False
        if ref["fittable"] is True and dtype != "float32":
            idx = ref["index"][usable][order]
            tau = refs.spi_tie_width(idx, ref["alpha"], ref.get("alpha_rel_tol"))
            tol_ok = (oo[k] - oo[k + 1] == 1) and abs(idx[k + 1] - idx[k]) <= 2 * max(tau[k], tau[k + 1])
        req(tol_ok, "%s: a wetter observation receives a smaller index: x=%r -> %d but x=%r -> %d %s" % (
            what, float(xo[k]), int(oo[k]), float(xo[k + 1]), int(oo[k + 1]), desc), what + " ordering violated")
    if ref["fittable"] is True and dtype != "float32":
        idx = ref["index"]
        for i in np.nonzero(usable)[0]:
            v = idx[i]
            if v == math.inf or v > 32768.5:
                req(o[i] == 32767, "%s: index %r must saturate at +32767, got %d (x=%r) %s" % (what, v, o[i], xs[i], desc), what + " no saturation")
            elif v == -math.inf or v < -32769.5:
                req(o[i] in (-32767, -32768), "%s: index %r must saturate at -32767/-32768, got %d (x=%r) %s" % (what, v, o[i], xs[i], desc),
                    what + " no saturation")
            elif np.isfinite(v) and abs(v) < 32000:
                req(abs(o[i] - v) <= max(2.0, 0.02 * abs(v)) or abs(v) > 7000, "%s: cell x=%r: got %d, definition gives %.3f %s" % (
                    what, xs[i], o[i], v, desc), what + " differs from definition")
                if abs(v) > 7000:
                    req((o[i] > 0) == (v > 0) and abs(o[i]) >= 6000, "%s: extreme cell x=%r: got %d, definition gives %.1f %s" % (
                        what, xs[i], o[i], v, desc), what + " extreme index lost")
        if np.nanmax(np.abs(idx[usable])) > 3000:
            return "extreme"
    return None


def sub_pixels(case):
    dtype = case["dtype"]
    nd = case["nodata"]
    cube = np.array(case["pixels"], dtype="float64").astype(dtype)
    win = tuple(case["window"])
    path = case["path"]
    out = _run_path(path, cube, nd, win)
    req(out.shape == cube.shape and out.dtype == np.int16, "%s returns %s %s" % (path, out.shape, out.dtype), path + " output type")
    tags = []
    for k in range(cube.shape[0]):
        tags.append(_check_pixel(path, cube[k], out[k], nd, win, dtype))
        if cube.shape[0] > 1:
            alone = _run_path(path, cube[k:k + 1], nd, win)
            req(np.array_equal(alone[0], out[k]), "%s: pixel %d differs between the mixed cube and its stand-alone run: %s vs %s" % (
                path, k, fmt(out[k]), fmt(alone[0])), path + " pixel depends on neighbours")
    return tags


def sub_groups(case):
    """Grouped path: ordering / nodata rules hold within each group."""
    dtype = case["dtype"]
    nd = case["nodata"]
    x = np.array(case["x"], dtype="float64").astype(dtype)
    g = np.array(case["groups"], dtype="int16")
    ng = int(g.max()) + 1
    wins = [tuple(w) for w in case["windows"]]
    out = _run_path("grp", x.reshape(1, -1), nd, wins, groups=g)[0]
    tags = []
    for k in range(ng):
        m = g == k
        tags.append(_check_pixel("grp[group %d]" % k, x[m], out[m], nd, wins[k], dtype))
    return tags


SUBS = {"pixels": sub_pixels, "groups": sub_groups}


@st.composite
def pixel(draw, nt, dtype, kind=None, win=None):
    """One pixel of length nt: returns (values list, tag)."""
    kind = kind or draw(st.sampled_from(["ordinary", "ordinary", "lowvar", "lowvar", "outliers", "bad", "zeros90"]))
    if kind == "zeros90" and nt >= 10:
        # exactly 90 % zeros among the valid cells: still fittable (the threshold is "more than 90 %")
        m = (nt // 10) * 10
        vals = [0.0] * nt
        npos = m // 10
        pos = draw(st.lists(st.integers(0, m - 1), min_size=npos, max_size=npos, unique=True))
        for q in pos:
            vals[q] = float(draw(st.integers(1, 400)))
        for q in range(m, nt):
            vals[q] = -1.0  # negative cells do not count as valid observations
        return vals, "zeros90"
    if kind == "zeros90":
        kind = "ordinary"
    big = 30000 if dtype == "int16" else 1e6
    if kind == "bad":
        b = draw(st.sampled_from(BAD_KINDS))
        return None, b
    if kind == "lowvar":
        base = draw(st.integers(200, 10000))
        spread = draw(st.sampled_from([1, 2, 3, 10]))
        vals = [base + v for v in draw(st.lists(st.integers(-spread, spread), min_size=nt, max_size=nt))]
        if dtype != "int16" and draw(st.booleans()):
            vals = [v + 0.25 * draw(st.integers(0, 3)) for v in vals]
    else:
        scale = 10 ** draw(st.floats(0, 3.5))
        sh = draw(st.sampled_from([0.3, 1.0, 2.0, 8.0, 60.0]))
        us = draw(st.lists(st.floats(1e-4, 1 - 1e-4), min_size=nt, max_size=nt))
        from scipy.stats import gamma as sg

        vals = [min(big, float(v)) for v in sg.ppf(np.array(us), sh) * scale]
        if dtype == "int16":
            vals = [float(round(v)) for v in vals]
    vals = [float(v) for v in vals]
    # outliers relative to the mean
    nout = draw(st.sampled_from([0, 1, 1, 2, 3])) if kind != "ordinary" else draw(st.sampled_from([0, 0, 1]))
    mean = max(sum(vals) / len(vals), 1e-6)
    outside = [q for q in range(nt) if win is not None and not (win[0] <= q < win[1])]
    # an outlier inside the calibration window changes the fit itself; extreme indices need outliers outside it
    pool = st.sampled_from(outside) if outside and draw(st.integers(0, 3)) > 0 else st.integers(0, nt - 1)
    for q in draw(st.lists(pool, min_size=min(nout, len(outside)) if outside else nout, max_size=nout, unique=True)):
        if kind == "lowvar" and draw(st.booleans()):
            # k-sigma outliers: for a near-normal (large shape) pixel the index is about 1000*k, so |k| in 33..38 sits in the band
            # where the index is finite but beyond int16 (must saturate, not wrap), and |k| > 38.5 gives -inf
            sd = max(float(np.std(np.array(vals))), 0.5)
            k = draw(st.sampled_from([-100, -40, -38, -37, -36, -35, -34, -33, -32, -10, -5, 5, 8, 9, 33, 40]))
            v = max(mean + k * sd, 0.0)
            vals[q] = float(round(v)) if dtype == "int16" else float(v)
            continue
        r = draw(st.sampled_from([1e-300, 1e-250, 1e-200, 1e-150, 1e-100, 1e-30, 1e-6, 1e-3, 0.5, 0.9, 1.002, 1.01, 1.1, 2.0, 10.0, 1e3, 1e6]))
        v = mean * r
        if dtype == "int16":
            v = float(min(32767, max(0, round(v))))
        vals[q] = min(v, 3e38) if dtype == "float32" else v
    nz = draw(st.sampled_from([0, 0, 0, 1, nt // 3]))
    for q in draw(st.lists(st.integers(0, nt - 1), min_size=nz, max_size=nz, unique=True)):
        vals[q] = 0.0
    return vals, kind + ("+zeros" if nz else "")


def _bad(b, nt, nd, win, draw):
    if b == "all_nodata":
        return [nd] * nt
    if b == "all_negative":
        return [-float(draw(st.integers(1, 900))) for _ in range(nt)]
    if b == "all_zero":
        return [0.0] * nt
    if b == "constant":
        return [float(draw(st.integers(1, 9000)))] * nt
    if b == "zeros95":
        v = [0.0] * nt
        for q in range(max(1, nt // 20)):
            v[q * 7 % nt] = float(draw(st.integers(1, 500)))
        return v
    if b == "no_positive_in_window":
        v = [float(draw(st.integers(1, 500))) for _ in range(nt)]
        for q in range(win[0], win[1]):
            v[q] = 0.0 if q % 2 else nd
        return v
    v = [-3.0 if q % 2 else nd for q in range(nt)]
    return v


@st.composite
def cube_case(draw, nmax):
    nt = draw(st.one_of(st.integers(4, 16), st.integers(4, nmax), st.sampled_from([20, 30, 40])))
    dtype = draw(st.sampled_from(["int16", "float32", "float64"]))
    nd = draw(st.sampled_from([-9999, -32768]))
    c0 = draw(st.integers(0, nt - 3))
    c1 = draw(st.integers(c0 + 3, nt))
    if draw(st.integers(0, 2)) == 0:
        c0, c1 = 0, nt
    npx = draw(st.sampled_from([1, 1, 2, 3, 4]))
    px, tags = [], []
    for _ in range(npx):
        vals, tag = draw(pixel(nt, dtype, win=(c0, c1)))
        if vals is None:
            vals = _bad(tag, nt, float(nd), (c0, c1), draw)
        elif tag != "zeros90":
            for q in draw(st.lists(st.integers(0, nt - 1), min_size=0, max_size=2, unique=True)):
                vals[q] = float(nd)
        px.append(vals)
        tags.append(tag)
    path = draw(st.sampled_from(["yxt", "grp", "accessor"] if dtype != "float64" else ["yxt", "accessor"]))
    return {"pixels": px, "dtype": dtype, "nodata": nd, "window": [c0, c1], "path": path, "tags": tags}


@st.composite
def group_case(draw):
    ng = draw(st.integers(1, 4))
    per = draw(st.integers(4, 14))
    nt = ng * per
    dtype = draw(st.sampled_from(["int16", "float32"]))
    nd = draw(st.sampled_from([-9999, -32768]))
    groups = [t % ng for t in range(nt)] if draw(st.booleans()) else [t // per for t in range(nt)]
    x = [0.0] * nt
    tags = []
    wins = []
    for k in range(ng):
        c0 = draw(st.integers(0, per - 3))
        c1 = draw(st.integers(c0 + 3, per))
        wins.append([c0, c1])
        vals, tag = draw(pixel(per, dtype, win=(c0, c1)))
        if vals is None:
            vals = _bad(tag, per, float(nd), (c0, c1), draw)
        tags.append(tag)
        members = [t for t in range(nt) if groups[t] == k]
        for t, v in zip(members, vals):
            x[t] = v
    return {"x": x, "groups": groups, "windows": wins, "dtype": dtype, "nodata": nd, "tags": tags}


def run(ctx):
    rec = ctx.rec

    def f_px(case):
        tags = sub_pixels(case)
        nontriv = any(t in ("extreme", "bad_pixel") for t in tags) or any("zeros" in t or t in BAD_KINDS for t in case["tags"])
        rec.case("pixels", case, nontrivial=nontriv, cls=["dtype:" + case["dtype"], "path:" + case["path"], "npix=%d" % len(case["pixels"])]
                 + ["gen:" + t for t in case["tags"]] + ["saw:" + t for t in tags if t])

    ctx.given("pixels", cube_case(ctx.n(60, 200)), ctx.n(1200, 15000), fn=f_px)

    def f_g(case):
        tags = sub_groups(case)
        rec.case("groups", case, nontrivial=len(case["windows"]) > 1 or any(t for t in tags),
                 cls=["dtype:" + case["dtype"], "groups=%d" % len(case["windows"])] + ["gen:" + t for t in case["tags"]])

    ctx.given("groups", group_case(), ctx.n(400, 5000), fn=f_g)


from harness import history as _history  # noqa: E402

_history.install(sys.modules[__name__], {"spi": _history.q_spi}, {"spi": _history.spi_args}, n=(100, 1200), dtypes=("int16", "float32"), nt=(12, 24),
                 attrs0={"nodata": -9999}, cells=st.one_of(st.integers(1, 3000), st.integers(1, 40), st.sampled_from([-9999, 0])))
