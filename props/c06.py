"""C06 - smoothers keep linear series, commute with offsets and time reversal."""
from __future__ import annotations

import sys
import numpy as np
from hypothesis import strategies as st

from harness import gens, refs, smooth
from harness.core import Violation
from harness.util import req, fmt
from props import c02, c04

PID = "C06"
LEVEL = "exploration"
RULE = ("Hypothesis draws a series (10 classes, n 4..200, |v|+|c| <= 1e4), a gap pattern, one of the nine smoother configurations "
        "with generated lambda/p/srange/lc/robust and an integer offset c. Metamorphic oracles: (1) exactly linear series a*t+b "
        "(integer a, b) -> the same line at every cell incl. gaps, every variant; (2) f(y+c, nodata+c) == f(y, nodata)+c with the same "
        "lambda; (3) f(reversed y) == reversed f(y) with the same lambda for gu, pgu, optv, optvp, optvplc. A unit difference is "
        "accepted only where an independent reference curve sits within the tie width of a half, a different lambda only if both are "
        "reference near-minimisers. Relation (1) is also checked through the whits / whitsvc / whitswcv accessors for uint8/int8/uint16/int16/int32/float32 rasters. The prange cube driver ws2doptvplc_tyx is held to relation (2) as well. Non-trivial: c != 0 / non-palindromic and the series is not itself linear (2-3); any linear "
        "series (1); distinct by content hash. "
        " Added after the fifth seeded round: accessor_linear with nodata=0 next to an unrelated attribute; generic 'history' sub-check for the three smoother accessors in all dimension orders.")
ASSUME = ["LAPACK reference curve only used to adjudicate unit differences (rounding ties)"]


def _prm(case):
    return c02._prm(case)


def _run(variant, y, valid, nd, prm):
    yy = np.array(y, dtype="float64")
    yy[~valid] = nd
    return smooth.run_variant(variant, yy, nd, prm)


def _adjudicate(what, variant, y, valid, prm, lam, out_a, out_b, rec=None, shift=0, ctx_twin=None, alt=None, alt_plain=None):
    """out_a / out_b should be equal; accept unit differences at rounding ties of the reference curve."""
    d = np.asarray(out_a).astype(np.int64) - np.asarray(out_b).astype(np.int64)
    if not d.any():
        return None
    desc = "%s: %s vs %s (n=%d, %d valid, lambda=%r, y=%s)" % (what, fmt(out_a), fmt(out_b), len(y), int(valid.sum()), lam,
                                                                fmt(np.where(valid, y, np.nan), 14))
    if variant in smooth.ROBUST:
        # every outcome the robust algorithm admits at this lambda (keep / reset fall-backs included) may explain a tie
        with np.errstate(all="ignore"):
            cands = refs.robust_gcv_candidates(y, valid, prm["llas"], prm.get("p"))
        zs = [c_["z"] for c_ in cands if np.isfinite(c_["lopt"]) and abs(c_["lopt"] - lam) <= 1e-9 * lam]
    else:
        zs = [smooth.reference_curve(variant, np.asarray(y, dtype=float), valid, lam, prm)[0]]
    if zs and all(np.max(np.abs(z)) + abs(shift) >= 32766 for z in zs):
        return "curve_leaves_int16"  # outside the claim (edge-gap extrapolation / overshoot)
    if not zs and max(int(np.max(np.abs(out_a))), int(np.max(np.abs(out_b)))) >= 20000:
        return "curve_leaves_int16"
    # Asymmetric variants: the curve is what at most 10 reweighting passes FROM THE ZERO CURVE reach (C03). Where that iteration
    # has not converged, the related input (shifted / reversed) legitimately ends on a slightly different curve; the reference
    # model shows by how much, and the tie width is widened by that path dependence (beyond a quarter unit: counted, not judged).
    path_dep = 0.0
    if alt is not None and variant in smooth.NEEDS_P and variant not in smooth.ROBUST and zs:
        try:
            z_alt = alt()
            if z_alt is not None and z_alt.shape == zs[0].shape:
                path_dep = float(np.max(np.abs(z_alt - zs[0])))
        except Exception:  # noqa: BLE001 - adjudication aid only
            path_dep = 0.0
    if alt_plain is not None and variant in smooth.ROBUST and variant in smooth.NEEDS_P:
        # robust + asymmetric: the same capped iteration from the zero curve runs underneath the robust weights; where the PLAIN
        # asymmetric curve of the related input already ends elsewhere, the robust one does too
        try:
            za_, zb_ = alt_plain()
            path_dep = float(np.max(np.abs(za_ - zb_)))
        except Exception:  # noqa: BLE001 - adjudication aid only
            path_dep = 0.0
    if 2 * path_dep >= 0.25:
        return "asymmetric_iteration_not_converged"
    req(int(np.max(np.abs(d))) <= 1, "difference of more than one unit - " + desc, what.split(":")[0] + " relation broken")
    if not zs:
        return "unit_difference_unadjudicated"  # no reference curve at this lambda: counted, not judged
    kap = smooth.kappa(len(y), lam, valid, prm.get("p") if variant in smooth.NEEDS_P else None)
    explained = False
    worst = None
    for z in zs:
        tau = refs.tie_tau(z, kap) + 2 * path_dep
        if tau >= 0.25:
            return "unresolvable_conditioning" if path_dep < 0.05 else "asymmetric_iteration_not_converged"
        frac = np.abs(z - np.floor(z) - 0.5)
        bad = (d != 0) & (frac > tau)
        if not bad.any():
            explained = True
            break
        worst = (int(np.nonzero(bad)[0][0]), float(z[np.nonzero(bad)[0][0]]))
    if not explained and variant in smooth.ROBUST and ctx_twin is not None:
        # The admissible-outcome list of the robust model is not complete (asymmetric + robust weights, fragile decisions).
        # Last resort: the kernel's own unrounded curves for both inputs (interpreted source); a unit difference is a tie
        # if both sit within the tie width of a half there.
        za = smooth.unrounded_via_twin(variant, ctx_twin[0], ctx_twin[1], prm)
        zb = smooth.unrounded_via_twin(variant, ctx_twin[2], ctx_twin[3], prm)
        if za is not None and zb is not None and za.shape == d.shape and zb.shape == d.shape:
            tw = 1e-6 + 1e-9 * max(1.0, float(np.max(np.abs(za))))
            fa = np.abs(za - np.floor(za) - 0.5)
            fb = np.abs(zb - np.floor(zb) - 0.5)
            if not ((d != 0) & ((fa > tw) | (fb > tw))).any():
                explained = True
    req(explained, "unit difference at a cell that is not a rounding tie (cell %d, reference %.9f) - %s" % (
        worst[0] if worst else -1, worst[1] if worst else 0.0, desc), what.split(":")[0] + " relation broken")
    if rec is not None:
        rec.ties += int((d != 0).sum())
    return None


def _same_lopt(what, variant, y, valid, prm, l1, l2):
    if l1 is None or l1 == l2:
        return None
    if abs(l1 - l2) <= 1e-12 * abs(l1):
        return None
    # both must be reference near-minimisers
    if variant in ("optv", "optvp", "optvplc"):
        llas = smooth.grid_for(variant, prm)
        cand, status = c04.near_min_set(np.asarray(y, dtype=float), valid, llas, prm.get("p"))
        if status:
            return status
        mids = (llas[:-1] + llas[1:]) / 2
        ks = {int(np.argmin(np.abs(mids - np.log10(l)))) for l in (l1, l2)}
        req(ks <= cand, "%s: different lambdas %r vs %r and the V-curve is not tied there" % (what, l1, l2), what.split(":")[0] + " lambda differs")
        return "selection_tie"
    # GCV variants: both must minimise the reference GCV score (for the robust variants the unweighted first-pass
    # criterion is used; a tie there - constant / exactly linear series, all scores ~ 0 - leaves the weights at 1)
    llas = prm["llas"]
    if variant in smooth.ROBUST:
        cand, status = refs.robust_lambda_candidates(y, valid, llas)
        if status:
            return status
        ks = {int(np.argmin(np.abs(llas - np.log10(l)))) for l in (l1, l2)}
        req(ks <= cand, "%s: different lambdas %r vs %r and the robust GCV criterion is not tied there" % (what, l1, l2),
            what.split(":")[0] + " lambda differs")
        return "selection_tie"
    w = np.asarray(valid, dtype=float)
    with np.errstate(all="ignore"):
        sa, _ = refs.gcv_scores(np.asarray(y, dtype=float), w, llas, solver=refs.banded_solve)
        sb, _ = refs.gcv_scores(np.asarray(y, dtype=float), w, llas, solver=refs.lu_solve)
    if not (np.isfinite(sa).all() and np.isfinite(sb).all()):
        return "nonfinite_gcv"
    tol = 1e-7 * abs(float(sa.min())) + 50 * float(np.max(np.abs(sa - sb))) + 1e-300
    if tol > 0.05 * float(sa.max() - sa.min()):
        return "unresolvable_gcv"
    cand = {int(i) for i in np.nonzero(sa <= sa.min() + tol)[0]}
    ks = {int(np.argmin(np.abs(llas - np.log10(l)))) for l in (l1, l2)}
    req(ks <= cand, "%s: different lambdas %r vs %r and the GCV score is not tied there" % (what, l1, l2), what.split(":")[0] + " lambda differs")
    return "selection_tie"


def sub_linear(case, rec=None):
    variant = case["variant"]
    n, a, b = case["n"], case["a"], case["b"]
    y = np.array([a * t + b for t in range(n)], dtype="float64")
    valid = np.array(case["valid"], dtype=bool)
    nd = float(case["nodata"])
    prm = _prm(case)
    out, lopt = _run(variant, y, valid, nd, prm)
    lam = prm["lam"] if lopt is None else lopt
    o = np.asarray(out).astype(np.int64)
    if np.array_equal(o, y.astype(np.int64)):
        return None
    tau = refs.tie_tau(y, smooth.kappa(n, lam, valid, prm.get("p") if variant in smooth.NEEDS_P else None)) if np.isfinite(lam) and lam > 0 else 0.0
    if tau >= 0.25:
        return "unresolvable_conditioning"
    bad = int(np.nonzero(o != y.astype(np.int64))[0][0])
    raise Violation("%s does not return the exactly linear series %d*t%+d unchanged: cell %d is %d, line %d (n=%d, %d valid, lambda=%r, "
                    "valid=%s)" % (variant, a, b, bad, o[bad], int(y[bad]), n, int(valid.sum()), lam, fmt(valid.astype(int), 20)),
                    signature="%s linear not preserved" % variant)


def sub_offset(case, rec=None):
    variant = case["variant"]
    y = np.array(case["y"], dtype="float64")
    valid = np.array(case["valid"], dtype=bool)
    nd, c = float(case["nodata"]), int(case["c"])
    prm = _prm(case)
    o1, l1 = _run(variant, y, valid, nd, prm)
    o2, l2 = _run(variant, y + c, valid, nd + c, prm)
    why = _same_lopt("%s offset c=%d" % (variant, c), variant, y, valid, prm, l1, l2)
    if why:
        return why
    lam = prm["lam"] if l1 is None else l1
    ya, yb = y.copy(), y + c
    ya[~valid] = nd
    yb[~valid] = nd + c
    return _adjudicate("%s offset c=%d: f(y)+c vs f(y+c)" % (variant, c), variant, y, valid, prm, lam,
                       np.asarray(o1).astype(np.int64) + c, o2, rec, shift=c, ctx_twin=(ya, nd, yb, nd + c),
                       alt=(lambda: smooth.reference_curve(variant, y + c, valid, lam, prm)[0] - c) if variant not in smooth.ROBUST else None,
                       alt_plain=(lambda: (smooth.reference_curve("wcvp", y, valid, lam, prm)[0], smooth.reference_curve("wcvp", y + c, valid, lam, prm)[0] - c)))


def sub_reverse(case, rec=None):
    variant = case["variant"]
    y = np.array(case["y"], dtype="float64")
    valid = np.array(case["valid"], dtype=bool)
    nd = float(case["nodata"])
    prm = _prm(case)
    o1, l1 = _run(variant, y, valid, nd, prm)
    o2, l2 = _run(variant, y[::-1].copy(), valid[::-1].copy(), nd, prm)
    why = _same_lopt("%s reversal" % variant, variant, y, valid, prm, l1, l2)
    if why:
        return why
    lam = prm["lam"] if l1 is None else l1
    return _adjudicate("%s reversal: f(y) vs reversed f(reversed y)" % variant, variant, y, valid, prm, lam, o1, np.asarray(o2)[::-1], rec,
                       alt=lambda: smooth.reference_curve(variant, y[::-1].copy(), valid[::-1].copy(), lam, prm)[0][::-1],
                       alt_plain=(lambda: (smooth.reference_curve("wcvp", y, valid, lam, prm)[0],
                                           smooth.reference_curve("wcvp", y[::-1].copy(), valid[::-1].copy(), lam, prm)[0][::-1])))


def sub_offset_tyx(case, rec=None):
    """The prange cube driver (grid chosen from the pixel's own lag-1 correlation) must commute with offsets, too."""
    from hdc.algo.ops.ws2doptvplc import ws2doptvplc_tyx
    from harness.util import call

    pix = np.array(case["pixels"], dtype="float64")
    vm = np.array(case["valid"], dtype=bool)
    nd, c, p = int(case["nodata"]), int(case["c"]), float(case["p"])
    nr, nc = case["shape"]

    def run(shift):
        a = (pix + shift).astype("int16")
        a[~vm] = nd + shift
        tyx = np.ascontiguousarray(a.T.reshape(a.shape[1], nr, nc))
        return call("ws2doptvplc_tyx", ws2doptvplc_tyx, tyx, p, nd + shift)

    z1, l1 = run(0)
    z2, l2 = run(c)
    why = None
    for k in range(pix.shape[0]):
        i, j = divmod(k, nc)
        v = vm[k]
        if v.sum() < 2:
            continue
        lc = refs.autocorr(pix[k], v)
        if abs(lc - 0.5) < 1e-6:
            why = why or "lc_at_threshold"
            continue
        prm = {"p": p, "lc": lc}
        w = _same_lopt("ws2doptvplc_tyx offset c=%d pixel %d" % (c, k), "optvplc", pix[k], v, prm, float(l1[i, j]), float(l2[i, j]))
        if w:
            why = why or w
            continue
        w = _adjudicate("ws2doptvplc_tyx offset c=%d pixel %d: f(y)+c vs f(y+c)" % (c, k), "optvplc", pix[k], v, prm, float(l1[i, j]),
                        z1[:, i, j].astype(np.int64) + c, z2[:, i, j], rec, shift=c,
                        alt=lambda k=k, v=v, prm=prm, lam=float(l1[i, j]): smooth.reference_curve("optvplc", pix[k] + c, v, lam, prm)[0] - c)
        why = why or w
    return why


def sub_accessor_linear(case):
    """Relation (1) through the accessors, for every integer / float input dtype: a linear series comes back as that line (gaps and
    edge gaps filled on the line, also where the line leaves the range of the INPUT dtype - the result is int16)."""
    import pandas as pd
    import xarray as xr
    import hdc.algo  # noqa: F401
    from harness.util import call

    n, a, b = case["n"], case["a"], case["b"]
    line = np.array([a * t + b for t in range(n)], dtype="int64")
    valid = np.array(case["valid"], dtype=bool)
    dt = case["dtype"]
    nd = case["nodata"]
    arr = line.copy()
    arr[~valid] = nd
    cube = arr.astype(dt).reshape(1, 1, n)
    da = xr.DataArray(cube, dims=("y", "x", "time"), coords={"time": pd.date_range("2010-01-01", periods=n, freq="10D")},
                      attrs={} if case.get("attr_nodata") is None else {"nodata": case["attr_nodata"]}).transpose(*case["dims"])
    prm = _prm(case)
    kw = {"p": prm["p"]} if "p" in prm else {}
    op = case["op"]
    if op == "whits":
        band = call("whits", lambda: da.hdc.whit.whits(nd, s=prm["lam"], **kw))
    elif op == "whitsvc":
        band = call("whitsvc", lambda: da.hdc.whit.whitsvc(nd, srange=prm["llas"], **kw))["band"]
    else:
        band = call("whitswcv", lambda: da.hdc.whit.whitswcv(nd, srange=prm["llas"], robust=case["robust"], **kw))["band"]
    got = band.transpose("y", "x", "time").values[0, 0].astype(np.int64)
    if not np.array_equal(got, line):
        lam = prm.get("lam", 1.0)
        bad = int(np.nonzero(got != line)[0][0])
        raise Violation("%s on a %s raster does not return the linear series %d*t%+d (cell %d: got %d, line %d; valid=%s, result dtype %s)" % (
            op, dt, a, b, bad, got[bad], line[bad], fmt(valid.astype(int), 20), band.dtype), signature="%s accessor linear not preserved" % op)


SUBS = {"linear": sub_linear, "offset": sub_offset, "reverse": sub_reverse, "offset_tyx": sub_offset_tyx, "accessor_linear": sub_accessor_linear}


@st.composite
def params(draw, variant, case):
    if variant in ("gu", "pgu"):
        case["loglam"] = draw(gens.loglam(-3.0, 5.0))
    if variant in smooth.NEEDS_P:
        case["p"] = draw(gens.pvals)
    if variant in smooth.NEEDS_SRANGE:
        case["sr"] = draw(gens.srange(min_count=2 if variant in smooth.GCV else 3, lo=-4.0, hi=5.0))
    if variant == "optvplc":
        case["lc"] = draw(st.one_of(st.floats(-1, 1), st.sampled_from([0.5, 0.7, 0.3, float("nan")])))
    return case


@st.composite
def linear_case(draw):
    variant = draw(st.sampled_from(smooth.VARIANTS))
    need = smooth.min_valid(variant)
    n = draw(st.one_of(st.integers(max(4, need), 12), st.integers(max(4, need), 200)))
    amax = 10000 // (n - 1)
    a = draw(st.one_of(st.integers(-amax, amax), st.sampled_from([0, 1, -1])))
    lo, hi = -10000 - min(0, a * (n - 1)), 10000 - max(0, a * (n - 1))
    b = draw(st.integers(lo, hi))
    g = draw(gens.gap_mask(n, min_valid=need))
    y = [a * t + b for t in range(n)]
    nd = gens.placeholder_for(y, g["valid"], draw(st.sampled_from(["below", "above"])))
    case = {"variant": variant, "n": n, "a": a, "b": b, "valid": g["valid"], "nodata": nd, "gcls": g["gcls"]}
    return draw(params(variant, case))


@st.composite
def pair_case(draw, variants, nmax, classes=None, high_p=False, fine_srange=False):
    variant = draw(st.sampled_from(variants))
    need = smooth.min_valid(variant)
    s = draw(gens.series(nmin=max(4, need), nmax=nmax, vmax=8000, classes=classes))
    n = len(s["y"])
    g = draw(gens.gap_mask(n, min_valid=need))
    lo, hi = min(s["y"]), max(s["y"])
    centre = -int(round(sum(s["y"]) / n))
    c = draw(st.one_of(st.integers(-10000 - lo, 10000 - hi), st.sampled_from([1, -1, 1000, centre, centre + 50, -lo, -hi])))
    c = max(-10000 - lo, min(10000 - hi, c))
    kind = draw(st.sampled_from(["below", "above", "inside"]))
    nd = gens.placeholder_for(s["y"], g["valid"], kind)
    case = {"variant": variant, "y": s["y"], "valid": g["valid"], "nodata": nd, "c": c, "ycls": s["cls"], "gcls": g["gcls"]}
    case = draw(params(variant, case))
    if fine_srange and "sr" in case:
        step = draw(st.sampled_from([0.1, 0.2, 0.25]))
        count = draw(st.integers(10, 30))
        case["sr"] = {"start": float(draw(st.sampled_from([-3.0, -2.0, -1.0, 0.0]))), "step": step, "count": count}
    if high_p and "p" in case:
        case["p"] = draw(st.sampled_from([0.8, 0.9, 0.95, 0.99, 0.85]))
        if "loglam" in case and draw(st.booleans()):
            case["loglam"] = draw(st.floats(-0.5, 1.5))  # lambda of the order 1..10: increments of the reweighting stay small
    return case


def _is_linear(y, valid):
    idx = [i for i, v in enumerate(valid) if v]
    if len(idx) < 3:
        return True
    d = {(y[idx[k + 1]] - y[idx[k]]) * (idx[1] - idx[0]) - (y[idx[1]] - y[idx[0]]) * (idx[k + 1] - idx[k]) for k in range(len(idx) - 1)}
    return d == {0}


def run(ctx):
    rec = ctx.rec

    def f_lin(case):
        why = sub_linear(case, rec)
        if why:
            rec.discard("linear", why)
        rec.case("linear", case, nontrivial=why is None, cls=[case["variant"], "gap:" + case["gcls"], "a=0" if case["a"] == 0 else "a!=0"])

    ctx.given("linear", linear_case(), ctx.n(900, 12000), fn=f_lin)

    DT_RANGE = {"uint8": (0, 255), "int8": (-128, 127), "uint16": (0, 65535), "int16": (-10000, 10000), "int32": (-10000, 10000), "float32": (-10000, 10000)}

    @st.composite
    def acc_lin(draw):
        dt = draw(st.sampled_from(sorted(DT_RANGE)))
        lo, hi = DT_RANGE[dt]
        hi = min(hi, 20000)
        op = draw(st.sampled_from(["whits", "whitsvc", "whitswcv"]))
        need = 5 if op == "whitswcv" else 2
        n = draw(st.integers(max(5, need), 30))
        g = draw(gens.gap_mask(n, classes=["leading", "trailing", "lead_trail", "isolated", "none"], min_valid=need))
        idx = [i for i, v in enumerate(g["valid"]) if v]
        # the line must fit the input dtype at the VALID cells only; at edge gaps it may leave it (but not int16)
        amax = (hi - lo) // max(idx[-1] - idx[0], 1)
        a = draw(st.integers(-amax, amax))
        vals_rel = [a * (i - idx[0]) for i in idx]
        b0 = draw(st.integers(lo - min(vals_rel), hi - max(vals_rel)))
        b = b0 - a * idx[0]
        line = [a * t + b for t in range(n)]
        if max(abs(v) for v in line) > 32000:
            a, b = 0, draw(st.integers(lo, hi))
            line = [b] * n
        used = {line[i] for i in idx}
        zero_first = [0] if lo <= 0 <= hi and draw(st.booleans()) else []
        nd = next(c for c in (zero_first + [hi, lo, hi - 1, lo + 1] + list(range(lo, hi))) if c not in used)
        case = {"n": n, "a": a, "b": b, "valid": g["valid"], "dtype": dt, "nodata": nd, "op": op, "dims": list(draw(st.permutations(["time", "y", "x"]))),
                "robust": draw(st.booleans()), "gcls": g["gcls"]}
        if op == "whits":
            case["loglam"] = draw(gens.loglam(-2.0, 4.0))
        else:
            case["sr"] = draw(gens.srange(min_count=2 if op == "whitswcv" else 3, lo=-3.0, hi=4.0))
        if draw(st.booleans()):
            case["p"] = draw(gens.pvals)
        if draw(st.booleans()):
            # the array carries an unrelated nodata attribute; the smoothers use the nodata ARGUMENT (0 included)
            case["attr_nodata"] = draw(st.sampled_from([-9999, 255, 7, line[idx[0]]]))
        return case

    def f_al(case):
        rec.case("accessor_linear", case, nontrivial=True, cls=["dtype:" + case["dtype"], "op:" + case["op"], "gap:" + case["gcls"]])
        sub_accessor_linear(case)

    ctx.given("accessor_linear", acc_lin(), ctx.n(300, 4000), fn=f_al)

    def f_off(case):
        why = sub_offset(case, rec)
        if why:
            rec.discard("offset", why)
        rec.case("offset", case, nontrivial=case["c"] != 0 and not _is_linear(case["y"], case["valid"]) and why is None,
                 cls=[case["variant"], "gap:" + case["gcls"], "y:" + case["ycls"]])

    ctx.given("offset", pair_case(smooth.VARIANTS, ctx.n(120, 200)), ctx.n(900, 12000), fn=f_off)
    # asymmetric variants on smooth low-noise data with a strong envelope: the regime where an iteration that is not run to its
    # fixed point depends on where the data sit relative to the zero start curve
    ctx.given("offset", pair_case(["pgu", "pgu", "pgu", "optvp", "wcvp", "optvplc"], ctx.n(60, 200), classes=["lownoise", "low_amplitude", "low_amplitude", "low_amplitude"], high_p=True),
              ctx.n(700, 8000), fn=f_off)

    # a signal of a few dozen counts shifted to the far end of the stated domain (|values| + |c| close to 10000): anything in the
    # asymmetric iteration that is measured relative to the LEVEL of the curve (a relative stop test, a relative step) shows only here
    @st.composite
    def small_signal_far_offset(draw):
        import math
        n = draw(st.integers(30, 200))
        base, amp, period, sd = draw(st.integers(-50, 50)), draw(st.integers(5, 60)), draw(st.floats(3, 15)), draw(st.integers(1, 20))
        noise = draw(st.lists(st.integers(-2 * sd, 2 * sd), min_size=n, max_size=n))
        y = [int(round(base + amp * math.sin(t / period))) + noise[t] for t in range(n)]
        g = draw(gens.gap_mask(n, classes=["none", "isolated"], min_valid=2))
        c = draw(st.sampled_from([-1, 1])) * draw(st.integers(9000, 9800))
        return {"variant": "pgu", "y": y, "valid": g["valid"], "nodata": gens.placeholder_for(y, g["valid"], "below"), "c": c, "ycls": "small_signal_far_offset",
                "gcls": g["gcls"], "loglam": draw(st.floats(-1.0, 3.0)), "p": draw(st.sampled_from([0.7, 0.8, 0.9, 0.95]))}

    ctx.given("offset", small_signal_far_offset(), ctx.n(800, 8000), fn=f_off, shrink=False)

    @st.composite
    def tyx_case(draw):
        nr, nc = draw(st.integers(1, 2)), draw(st.integers(1, 3))
        nt = draw(st.integers(6, 60))
        px, vm = [], []
        for _ in range(nr * nc):
            px.append(draw(gens.series(n=nt, vmax=4000, classes=["seasonal", "walk", "iid", "step", "flat_spikes"]))["y"])
            vm.append(draw(gens.gap_mask(nt, min_valid=2))["valid"])
        return {"shape": [nr, nc], "pixels": px, "valid": vm, "nodata": -5000, "p": draw(gens.pvals),
                "c": draw(st.one_of(st.integers(-5000, 5000), st.sampled_from([3000, 5000, -4000])))}

    def f_tyx(case):
        why = sub_offset_tyx(case, rec)
        if why:
            rec.discard("offset_tyx", why)
        rec.case("offset_tyx", case, nontrivial=case["c"] != 0 and why is None, cls=["pixels=%d" % len(case["pixels"]),
                                                                                    "gaps" if not all(all(v) for v in case["valid"]) else "nogaps"])

    ctx.given("offset_tyx", tyx_case(), ctx.n(200, 3000), fn=f_tyx)

    def f_rev(case):
        why = sub_reverse(case, rec)
        if why:
            rec.discard("reverse", why)
        y, v = case["y"], case["valid"]
        pal = all((not v[i] and not v[-1 - i]) or (v[i] and v[-1 - i] and y[i] == y[-1 - i]) for i in range(len(y)))
        rec.case("reverse", case, nontrivial=(not pal) and not _is_linear(y, v) and why is None,
                 cls=[case["variant"], "gap:" + case["gcls"], "y:" + case["ycls"]])

    ctx.given("reverse", pair_case(sorted(smooth.REVERSIBLE), ctx.n(120, 200)), ctx.n(700, 10000), fn=f_rev)
    # the V-curve criteria must not treat the two ends of the series differently: large residuals at the first / last step
    ctx.given("reverse", pair_case(["optv", "optv", "optvp", "optvplc"], ctx.n(60, 200), classes=["edge_outlier"], fine_srange=True), ctx.n(600, 6000), fn=f_rev)


from harness import history as _history  # noqa: E402

_history.install(sys.modules[__name__], {"whits": _history.q_whits, "whitsvc": _history.q_whitsvc, "whitswcv": _history.q_whitswcv},
                 {"whits": _history.WHITS_ARGS, "whitsvc": _history.WHITSVC_ARGS, "whitswcv": _history.WHITSWCV_ARGS}, n=(120, 1500), dtypes=("int16", "float64"),
                 attr_values=(-3000, 0, -9999), cells=_history.NDVI_CELLS, dims=(("time", "y", "x"), ("y", "time", "x"), ("y", "x", "time")))
