"""C05 - GCV selection is optimal on the grid; robust mode never degenerates."""
from __future__ import annotations

import sys
import math

import numpy as np
import pandas as pd
import xarray as xr
from hypothesis import strategies as st

import hdc.algo  # noqa: F401
from hdc.algo import ops
from harness import gens, refs, smooth
from harness.core import Violation
from harness.util import call, req, fmt
from props import c02

PID = "C05"
LEVEL = "exploration"
RULE = ("Hypothesis draws series (10 classes, n 5..200, >=5 valid cells) x gap pattern x srange (2..40 entries, incl. the accessor "
        "default arange(-1.8,4.2,0.2)) x robust in {F,T} x p or none. Non-robust: lopt in 10**srange (1e-9) and in the near-minimiser "
        "set of an independent GCV model (tolerance calibrated by two LAPACK solvers); band bit-equal to the fixed-lambda smoother at "
        "lopt. Robust: lopt in 10**srange; on non-degenerate, non-fragile cases the band equals (tie rule) an independent model of the "
        "4-pass bisquare algorithm with residual statistics over valid cells only; degenerate families (constant, exactly linear, "
        "flat+spikes, two-level; far from zero; with/without gaps) must come back as the constant / the line / a finite curve, "
        "never the all-0 / all--32768 cast-of-NaN patterns; placeholder independence; whitswcv defaults, "
        "naming and sgrid; every robust band must satisfy the normal-equation consistency test (>= 2 valid cells can carry weight, missing cells none). Non-trivial: gaps, or grid != arange(-2,2), or degenerate family, or robust; distinct by content hash. "
        " Added after the fifth seeded round: Unsorted sranges in the symmetric GCV sub-check; generic 'history' sub-check for whitswcv.")
ASSUME = ["LAPACK banded solvers as reference", "robust equality oracle only where MAD > 0 in every pass and both reference solvers agree"]


def _setup(case):
    y = np.array(case["y"], dtype="float64")
    valid = np.array(case["valid"], dtype=bool)
    nd = float(case["nodata"])
    yy = y.copy()
    yy[~valid] = nd
    return y, valid, nd, yy, gens.srange_array(case["sr"]), case.get("p")


def _on_grid(what, lopt, llas):
    req(np.isfinite(lopt) and lopt > 0, "%s: reported lambda %r" % (what, lopt), what + " lopt not positive")
    ll = math.log10(lopt)
    k = int(np.argmin(np.abs(llas - ll)))
    req(abs(llas[k] - ll) <= 1e-9 * max(1.0, abs(ll)), "%s: log10(lopt)=%.12g is not an srange entry (%s)" % (what, ll, fmt(llas, 6)),
        what + " lopt not on grid")
    return k


def sub_gcv(case):
    y, valid, nd, yy, llas, p = _setup(case)
    variant = "wcvp" if p is not None else "wcv"
    out, lopt = smooth.run_variant(variant, yy, nd, {"llas": llas, "p": p})
    k = _on_grid("ws2d" + variant, lopt, llas)
    want = ops.ws2dgu(yy, lopt, nd) if p is None else ops.ws2dpgu(yy, lopt, nd, float(p))
    req(np.array_equal(out, want), "ws2d%s: band differs from the fixed-lambda smoother at the reported lambda %r: %s vs %s" % (
        variant, lopt, fmt(out), fmt(want)), "ws2d%s band != fixed smoother at lopt" % variant)
    w = valid.astype(float)
    with np.errstate(all="ignore"):
        sa, _ = refs.gcv_scores(y, w, llas, solver=refs.banded_solve)
        sb, _ = refs.gcv_scores(y, w, llas, solver=refs.lu_solve)
    if not (np.isfinite(sa).all() and np.isfinite(sb).all()):
        return "nonfinite_gcv"
    noise = float(np.max(np.abs(sa - sb)))
    smin = float(sa.min())
    tol = 1e-7 * abs(smin) + 50 * noise + 1e-300
    if sa.size > 1 and tol > 0.05 * float(sa.max() - smin):
        return "unresolvable_gcv"
    cand = {int(i) for i in np.nonzero(sa <= smin + tol)[0]}
    req(k in cand, "ws2d%s: reported lambda 10^%.6g (grid index %d) does not minimise the GCV score; reference minimisers %s "
        "(grid start %.6g step %.6g count %d, n=%d, %d valid)" % (variant, llas[k], k, sorted(cand), llas[0], llas[1] - llas[0], len(llas),
                                                                   y.size, int(valid.sum())), "ws2d%s lopt not optimal" % variant)
    return None


def sub_robust_ref(case, rec=None):
    y, valid, nd, yy, llas, p = _setup(case)
    variant = "wcvp_r" if p is not None else "wcv_r"
    out, lopt = smooth.run_variant(variant, yy, nd, {"llas": llas, "p": p})
    _on_grid("ws2d%s(robust)" % variant[:-2], lopt, llas)
    req(out.dtype == np.int16, "robust band dtype %s" % out.dtype)
    with np.errstate(all="ignore"):
        ca = refs.robust_gcv_candidates(y, valid, llas, p, solver=refs.banded_solve)
        cb = refs.robust_gcv_candidates(y, valid, llas, p, solver=refs.lu_solve)
    if not ca or len(ca) != len(cb):
        return "fragile_reference_solvers_disagree"
    if min(a["best_score"] for a in ca) <= 1e-10 * (1.0 + float(np.max(np.abs(y[valid]))) ** 2):
        return "selection_tie_exact_fit"  # (near-)interpolating fit: every lambda scores ~0, the selection is tied by nature
    taus = []
    for a, b in zip(ca, cb):
        if a["lopt"] != b["lopt"] or not np.array_equal(np.rint(a["z"]), np.rint(b["z"])) or not np.array_equal(a["weights"] > 0, b["weights"] > 0):
            return "fragile_reference_solvers_disagree"
        z = a["z"]
        if not np.isfinite(z).all() or np.max(np.abs(z)) >= 32766:
            return "curve_leaves_int16"
        tau = refs.tie_tau(z, refs.cond2(y.size, a["lopt"], np.maximum(a["weights"] * (min(p, 1 - p) if p is not None else 1.0), 0)))
        if tau >= 0.25:
            return "unresolvable_conditioning"
        if a["margin"] <= max(10 * tau, 1e-6):
            return "fragile_decision"
        taus.append(tau)
    o = np.asarray(out)
    for a, tau in zip(ca, taus):
        if abs(lopt - a["lopt"]) <= 1e-9 * a["lopt"]:
            ok, nties, _ = refs.rounded_matches(o, a["z"], tau)
            if ok:
                if rec is not None:
                    rec.ties += nties
                return None if not a["problem_passes"] else "matched_fallback_candidate"
    lams = sorted({float(a["lopt"]) for a in ca})
    best = min(ca, key=lambda a: float(np.max(np.abs(o - np.rint(a["z"])))))
    raise Violation("robust %s: the band is none of the %d outcomes the robust algorithm admits on valid-cell residuals (n=%d, %d valid, p=%r): "
                    "reported lambda %r (admissible %s), band %s, closest admissible curve %s" % (
                        variant, len(ca), y.size, int(valid.sum()), p, lopt, lams, fmt(o, 14), fmt(np.rint(best["z"]).astype(int), 14)),
                    signature="robust band differs from model")


def sub_robust_degenerate(case):
    y, valid, nd, yy, llas, p = _setup(case)
    variant = "wcvp_r" if p is not None else "wcv_r"
    out, lopt = smooth.run_variant(variant, yy, nd, {"llas": llas, "p": p})
    fam = case["family"]
    _on_grid("ws2d%s(robust)" % variant[:-2], lopt, llas)
    yv = y[valid]
    desc = "(family %s, n=%d, %d valid, y=%s)" % (fam, y.size, int(valid.sum()), fmt(np.where(valid, y, np.nan), 14))
    o = np.asarray(out).astype(np.int64)
    if fam == "constant":
        req(bool((o == int(yv[0])).all()), "robust %s returns %s for a constant series %s" % (variant, fmt(o), desc),
            "robust constant not preserved")
    elif fam == "linear":
        t = np.arange(y.size)
        i0, i1 = np.nonzero(valid)[0][:2]
        a = (y[i1] - y[i0]) / (i1 - i0)
        line = y[i0] + a * (t - i0)
        if np.max(np.abs(line)) < 32766:
            req(bool((o == np.rint(line).astype(np.int64)).all()), "robust %s returns %s for an exactly linear series %s" % (variant, fmt(o), desc),
                "robust linear not preserved")
    else:
        zero_pat = bool((o == 0).all()) or bool((o == -32768).all())
        req(not zero_pat, "robust %s returns the cast-of-NaN pattern %s %s" % (variant, fmt(o), desc), "robust zeroed")
        # No range bound is demanded: cells rejected by the bisquare weights at the edges make the curve
        # extrapolate linearly, which legitimately leaves the data range (first version of this check demanded
        # |out - median| <= 2*range+1 and raised a false alarm on such a case; see DESIGN C05).


def sub_robust_curve(case):
    """The robust band must be (the rounding of) a Whittaker curve at the reported lambda that is supported by at least two
    weighted valid cells and gives missing cells no weight - whatever weights the implementation derives."""
    y, valid, nd, yy, llas, p = _setup(case)
    variant = "wcvp_r" if p is not None else "wcv_r"
    out, lopt = smooth.run_variant(variant, yy, nd, {"llas": llas, "p": p})
    _on_grid("ws2d%s(robust)" % variant[:-2], lopt, llas)
    o = np.asarray(out).astype(np.int64)
    if np.abs(o).max() >= 20000:
        # data are within +-10000: values beyond twice that come from edge extrapolation, which may also have wrapped
        return "curve_leaves_int16"
    support, miss = smooth.whittaker_support(o, y, valid, lopt)
    desc = "(n=%d, %d valid, lambda=%.6g, p=%r, y=%s -> %s)" % (y.size, int(valid.sum()), lopt, p, fmt(np.where(valid, y, np.nan), 16), fmt(o, 16))
    req(support >= 2, "robust %s: the band is not a Whittaker curve supported by at least two weighted observations at the reported lambda "
        "(cells that can carry weight: %d) %s" % (variant, support, desc), "robust band unsupported")
    req(miss <= 0, "robust %s: missing cells carry weight (|D'D band| exceeds the rounding allowance by %.3g at a missing cell) %s" % (variant, miss, desc),
        "robust missing cells weighted")
    return None


def sub_accessor(case):
    ny, nx = case["shape"]
    pix = np.array(case["pixels"], dtype="float64")
    vm = np.array(case["valid"], dtype=bool)
    nd = case["nodata"]
    pix[~vm] = nd
    nt = pix.shape[1]
    cube = pix.reshape(ny, nx, nt).astype(case["dtype"])
    da = xr.DataArray(cube, dims=("y", "x", "time"), coords={"time": pd.date_range("2010-01-01", periods=nt, freq="10D")},
                      name=case.get("name")).transpose(*case["dims"])
    p = case.get("p")
    kw = {}
    if "sr" in case:
        llas = gens.srange_array(case["sr"])
        kw["srange"] = llas
    else:
        llas = np.arange(-1.8, 4.2, 0.2)
    robust = case.get("robust")
    if robust is not None:
        kw["robust"] = robust
    eff_robust = True if robust is None else robust
    ds = call("whitswcv", lambda: da.hdc.whit.whitswcv(nd, p=p, **kw))
    bname = case.get("name") or "band"
    req(isinstance(ds, xr.Dataset) and set(ds.data_vars) == {bname, "sgrid"}, "whitswcv variables %s" % sorted(getattr(ds, "data_vars", [])),
        "whitswcv naming")
    req(ds["sgrid"].dtype == np.float32 and ds[bname].dtype == np.int16, "whitswcv dtypes %s %s" % (ds[bname].dtype, ds["sgrid"].dtype),
        "whitswcv dtypes")
    band = ds[bname].transpose("y", "x", "time").values
    sg = ds["sgrid"].transpose("y", "x").values
    for i in range(ny):
        for j in range(nx):
            yy = cube[i, j].astype("float64")
            if p:
                o, l = ops.ws2dwcvp(yy, float(nd), float(p), llas, eff_robust)
            else:
                o, l = ops.ws2dwcv(yy, float(nd), llas, eff_robust)
            req(np.array_equal(band[i, j], o), "whitswcv band of pixel (%d,%d) differs from the kernel (srange default=%s, robust=%s)" % (
                i, j, "sr" not in case, eff_robust), "whitswcv band")
            with np.errstate(divide="ignore"):
                want = np.float32(np.log10(l))
            req(sg[i, j] == want, "whitswcv sgrid (%d,%d) = %r, float32(log10(lopt)) = %r" % (i, j, sg[i, j], want), "whitswcv sgrid")


SUBS = {"gcv": sub_gcv, "robust_ref": sub_robust_ref, "robust_degenerate": sub_robust_degenerate, "robust_curve": sub_robust_curve, "accessor": sub_accessor,
        "robust_placeholder": c02.sub_placeholder}

DEFAULT_SR = {"start": -1.8, "step": 0.2, "count": 30}
GCLASSES = [c for c in gens.SERIES_CLASSES if c not in ("constant", "linear")]


def _sr():
    return st.one_of(st.just(DEFAULT_SR), gens.srange(min_count=2, lo=-4.0, hi=6.0), gens.srange(min_count=2, lo=-4.0, hi=6.0))


@st.composite
def gcase(draw, nmax, classes=None, perm_ok=False):
    s = draw(gens.series(nmin=5, nmax=nmax, classes=classes or GCLASSES))
    n = len(s["y"])
    g = draw(gens.gap_mask(n, min_valid=5))
    nd = gens.placeholder_for(s["y"], g["valid"], draw(st.sampled_from(gens.PLACEHOLDER_KINDS)))
    case = {"y": s["y"], "valid": g["valid"], "nodata": nd, "ycls": s["cls"], "gcls": g["gcls"], "sr": draw(_sr())}
    if draw(st.booleans()):
        case["p"] = draw(gens.pvals)
    elif perm_ok and draw(st.integers(0, 2)) == 0:
        # "lambda drawn from 10**srange": the candidates need not be sorted (the symmetric criterion does not depend on their order)
        cnt = case["sr"]["count"]
        case["sr"] = dict(case["sr"], perm=list(range(cnt - 1, -1, -1)) if draw(st.booleans()) else list(draw(st.permutations(list(range(cnt))))))
    return case


@st.composite
def degenerate_case(draw):
    fam = draw(st.sampled_from(["constant", "linear", "flat_spikes", "two_level"]))
    n = draw(st.integers(5, 120))
    if fam == "constant":
        y = [draw(st.one_of(st.integers(-10000, -100), st.integers(100, 10000)))] * n
    elif fam == "linear":
        a = draw(st.integers(-(4000 // (n - 1)), 4000 // (n - 1)))
        b = draw(st.sampled_from([-6000, 5000, 3000]))
        y = [a * t + b for t in range(n)]
    elif fam == "flat_spikes":
        rngv = draw(st.integers(1, 800))
        level = (4 * rngv + 100) * draw(st.sampled_from([-1, 1]))
        y = [level] * n
        ns = draw(st.integers(1, max(1, (n - 1) // 2 - 1)))
        for q in draw(st.lists(st.integers(0, n - 1), min_size=ns, max_size=ns, unique=True)):
            y[q] = level + draw(st.integers(-rngv, rngv))
    else:
        rngv = draw(st.integers(1, 800))
        level = (4 * rngv + 100) * draw(st.sampled_from([-1, 1]))
        y = draw(st.lists(st.sampled_from([level, level, level + rngv]), min_size=n, max_size=n))
    g = draw(gens.gap_mask(n, classes=["none", "none", "isolated", "runs", "leading", "trailing", "alternating"], min_valid=5))
    nd = gens.placeholder_for(y, g["valid"], draw(st.sampled_from(["below", "above", "zero"])))
    case = {"family": fam, "y": y, "valid": g["valid"], "nodata": nd, "gcls": g["gcls"], "sr": draw(_sr())}
    if draw(st.booleans()):
        case["p"] = draw(gens.pvals)
    return case


@st.composite
def spike_case(draw, simple=False):
    """Flat / linear / noisy base far from zero (both signs) with a few spikes and gaps: the inputs on which robust weights get extreme.
    simple: short, exactly flat, below zero, one upward spike and a few gaps - the bisquare step then wants to reject every flat cell."""
    if simple:
        n = draw(st.integers(6, 25))
        level = -draw(st.integers(50, 3000))
        y = [level] * n
        y[draw(st.integers(0, n - 1))] += draw(st.integers(200, 3000))
        if draw(st.booleans()):
            y[draw(st.integers(0, n - 1))] -= draw(st.integers(100, 1500))
        ng = draw(st.integers(1, 3))
        valid = [True] * n
        for q in draw(st.lists(st.integers(0, n - 1), min_size=ng, max_size=ng, unique=True)):
            valid[q] = False
        if sum(valid) < 5:
            valid = [True] * n
        nd = gens.placeholder_for(y, valid, draw(st.sampled_from(["below", "above"])))
        case = {"y": y, "valid": valid, "nodata": nd, "gcls": "isolated", "sr": draw(_sr()), "ycls": "flat_one_spike_up"}
        if draw(st.booleans()):
            case["p"] = draw(gens.pvals)
        return case
    n = draw(st.integers(5, 80))
    level = draw(st.sampled_from([-1, 1])) * draw(st.integers(50, 6000))
    slope = draw(st.sampled_from([0, 0, 1, -2, 7]))
    nz = draw(st.sampled_from([0, 0, 1, 5, 60]))
    y = [level + slope * t + (draw(st.integers(-nz, nz)) if nz else 0) for t in range(n)]
    ns = draw(st.integers(1, 3))
    for q in draw(st.lists(st.integers(0, n - 1), min_size=ns, max_size=ns, unique=True)):
        y[q] += draw(st.sampled_from([-1, 1, 1])) * draw(st.integers(100, 3000))
    y = [max(-10000, min(10000, v)) for v in y]
    g = draw(gens.gap_mask(n, classes=["none", "isolated", "isolated", "runs", "leading", "trailing", "alternating"], min_valid=5))
    nd = gens.placeholder_for(y, g["valid"], draw(st.sampled_from(["below", "above"])))
    case = {"y": y, "valid": g["valid"], "nodata": nd, "gcls": g["gcls"], "sr": draw(_sr()), "ycls": "spikes"}
    if draw(st.booleans()):
        case["p"] = draw(gens.pvals)
    return case


@st.composite
def acc_case(draw):
    ny, nx = draw(st.integers(1, 2)), draw(st.integers(1, 3))
    nt = draw(st.integers(5, 50))
    pix, val = [], []
    for _ in range(ny * nx):
        pix.append(draw(gens.series(n=nt, classes=GCLASSES))["y"])
        val.append(draw(gens.gap_mask(nt, min_valid=0 if draw(st.integers(0, 9)) == 0 else 5))["valid"])
    case = {"shape": [ny, nx], "pixels": pix, "valid": val, "nodata": draw(st.sampled_from([-32768, -11000, 11000])),
            "dtype": draw(st.sampled_from(["int16", "float32", "float64"])), "dims": list(draw(st.permutations(["time", "y", "x"]))),
            "name": draw(st.sampled_from([None, "ndvi"]))}
    if draw(st.booleans()):
        case["sr"] = draw(gens.srange(min_count=2, lo=-4.0, hi=6.0))
    r = draw(st.sampled_from([None, True, False]))
    if r is not None:
        case["robust"] = r
    if draw(st.booleans()):
        case["p"] = draw(gens.pvals)
    return case


def _trivial(case):
    sr = case["sr"]
    return sr["start"] == -2.0 and sr["step"] == 1.0 and sr["count"] == 4 and all(case["valid"])


def run(ctx):
    rec = ctx.rec

    def f_gcv(case):
        why = sub_gcv(case)
        if why:
            rec.discard("gcv", why)
        rec.case("gcv", case, nontrivial=(not _trivial(case)) and why is None,
                 cls=["wcvp" if "p" in case else "wcv", "gap:" + case["gcls"], "y:" + case["ycls"],
                      "default_srange" if case["sr"] == DEFAULT_SR else "gen_srange", "srange_order:" + ("permuted" if case["sr"].get("perm") else "ascending")])

    ctx.given("gcv", gcase(ctx.n(120, 200), perm_ok=True), ctx.n(900, 12000), fn=f_gcv)

    def f_rob(case):
        why = sub_robust_ref(case, rec)
        if why:
            rec.discard("robust_ref", why)
        if why == "matched_fallback_candidate":
            why = None
            rec.case("robust_ref", None, count=0, cls="matched_a_fallback_outcome")
        rec.case("robust_ref", case, nontrivial=why is None, cls=["wcvp_r" if "p" in case else "wcv_r", "gap:" + case["gcls"], "y:" + case["ycls"]])

    ctx.given("robust_ref", st.one_of(gcase(ctx.n(100, 200), classes=["seasonal", "walk", "iid", "step", "seasonal"]), spike_case(), spike_case(simple=True),
                                      spike_case(simple=True)), ctx.n(1200, 14000), fn=f_rob)

    def f_deg(case):
        rec.case("robust_degenerate", case, nontrivial=True, cls=["family:" + case["family"], "gap:" + case["gcls"], "p" if "p" in case else "nop"])
        sub_robust_degenerate(case)

    ctx.given("robust_degenerate", degenerate_case(), ctx.n(600, 8000), fn=f_deg)

    def f_cv(case):
        why = sub_robust_curve(case)
        if why:
            rec.discard("robust_curve", why)
        rec.case("robust_curve", case, nontrivial=why is None, cls=["y:" + case["ycls"], "gap:" + case["gcls"], "p" if "p" in case else "nop"])

    ctx.given("robust_curve", st.one_of(spike_case(), spike_case(simple=True), gcase(ctx.n(100, 200), classes=["seasonal", "walk", "iid", "step", "flat_spikes"])),
              ctx.n(900, 12000), fn=f_cv)

    def f_ph(case):
        rec.case("robust_placeholder", case, nontrivial=not all(case["valid"]), cls=[case["variant"], "gap:" + case["gcls"]])
        c02.sub_placeholder(case)

    ctx.given("robust_placeholder", c02.smoother_case(["wcv_r", "wcvp_r"], nmax=100), ctx.n(300, 4000), fn=f_ph)

    def f_acc(case):
        rec.case("accessor", case, nontrivial=True, cls=["default_srange" if "sr" not in case else "srange", "robust=%s" % case.get("robust"),
                                                         "p" if "p" in case else "nop"])
        sub_accessor(case)

    ctx.given("accessor", acc_case(), ctx.n(300, 3000), fn=f_acc)


from harness import history as _history  # noqa: E402

_history.install(sys.modules[__name__], {"whitswcv": _history.q_whitswcv}, {"whitswcv": _history.WHITSWCV_ARGS}, n=(100, 1200), dtypes=("int16", "float64"),
                 attr_values=(-3000, 0, -9999), cells=_history.NDVI_CELLS)
