"""C11 - dekads partition the calendar and behave as an ordered integer line."""
from __future__ import annotations

import calendar
import datetime as dt
import multiprocessing as mp

import numpy as np
import pandas as pd
import xarray as xr
from hypothesis import strategies as st

import hdc.algo  # noqa: F401
from hdc.algo.dekad import Dekad
from harness.core import Violation
from harness.util import call, req

PID = "C11"
LEVEL = "exploration"
RULE = ("Enumerated completely on 16 processes in both tiers: every date 0001-01-01..9999-12-31 (3,652,059) - fields, membership start<=instant<=end at "
        "00:00 and 23:59:59.999999, the three constructors mutually inverse; every dekad 0001-01-d1..9999-12-d3 (359,964) - "
        "start day, ndays vs calendar.monthrange, abutting neighbours, month sums, comparison/hash/offset algebra for a fixed offset set. "
        "Generated: intra-day datetimes, arbitrary offset pairs inside year 1..9999, histories of up to 30 operations (offsets, reconstruction via label / raw / start / end / any day of the dekad) tracked by an integer model, comparisons with str/int/date operands, and the "
        ".dekad accessor on generated datetime64 arrays against the scalar class element-wise. Non-trivial: every case (the suite "
        "asserts ~60 hand-picked facts); distinct by date / dekad number. "
        " Added after the fourth seeded round: Sub-check 'accessor_history': one time coordinate queried repeatedly while handed-out arrays are modified (where writable) and labels replaced in place. "
        " Added after the fifth seeded round: Dekadal axes with repeated and missing dekads.")
ASSUME = ["python calendar/datetime as the calendar model"]
EXHAUSTIVE_WHOLE = True  # set to the truth at run time (thorough tier only)

OFFSETS = (1, 2, 3, 35, 36, 37, 360, 3600, -1, -2, -3, -36, -37)
RAW_MIN, RAW_MAX = 36 * 1, 36 * 9999 + 35
LAST_TS = dt.datetime(9999, 12, 31, 23, 59, 59, 999999)


def model_fields(d):
    idx = min(3, (d.day - 1) // 10 + 1)
    return {"year": d.year, "month": d.month, "idx": idx, "yidx": 3 * (d.month - 1) + idx,
            "raw": 36 * d.year + 3 * (d.month - 1) + idx - 1, "label": "%04d%02dd%d" % (d.year, d.month, idx)}


def model_bounds(year, month, idx):
    ml = calendar.monthrange(year, month)[1]
    first = (1, 11, 21)[idx - 1]
    last = (10, 20, ml)[idx - 1]
    return dt.datetime(year, month, first), dt.datetime(year, month, last, 23, 59, 59, 999999), last - first + 1


def check_day(d):
    """d: datetime.date. Raises Violation."""
    m = model_fields(d)
    for inst in (d, dt.datetime(d.year, d.month, d.day), dt.datetime(d.year, d.month, d.day, 23, 59, 59, 999999)):
        k = Dekad(inst)
        got = {"year": k.year, "month": k.month, "idx": k.idx, "yidx": k.yidx, "raw": k.raw, "label": str(k)}
        req(got == m, "Dekad(%r): fields %s, calendar model %s" % (inst, got, m), "dekad fields")
        s, e, _ = model_bounds(m["year"], m["month"], m["idx"])
        req(k.start_date == s, "Dekad(%r).start_date = %r, model %r" % (inst, k.start_date, s), "dekad start_date")
        ts = inst if isinstance(inst, dt.datetime) else dt.datetime(d.year, d.month, d.day)
        if m["raw"] != RAW_MAX:
            req(k.end_date == e, "Dekad(%r).end_date = %r, model %r" % (inst, k.end_date, e), "dekad end_date")
            req(k.start_date <= ts <= k.end_date, "instant %r outside [%r, %r]" % (ts, k.start_date, k.end_date), "dekad membership")
            req(k.date_range == (s, e), "date_range %r" % (k.date_range,), "dekad date_range")
        else:
            req(k.start_date <= ts, "instant before start", "dekad membership")
    k = Dekad(d)
    req(Dekad(str(k)) == k and Dekad(str(k)).raw == k.raw, "Dekad(str) round trip fails for %s" % k, "dekad constructor round trip")
    req(Dekad(k.raw) == k and str(Dekad(k.raw)) == m["label"], "Dekad(raw) round trip fails for %s" % k, "dekad constructor round trip")
    req(Dekad(k.start_date).raw == k.raw, "Dekad(start_date) round trip fails for %s" % k, "dekad constructor round trip")
    req(k == m["label"] and k == m["raw"] and k == d, "equality with str/int/date operands fails for %s" % k, "dekad equality")
    req(repr(k) == 'Dekad("%s")' % m["label"], "repr %r" % repr(k), "dekad repr")


def check_dekad(raw):
    k = Dekad(raw)
    year, rem = divmod(raw, 36)
    month, idx = rem // 3 + 1, rem % 3 + 1
    s, e, nd = model_bounds(year, month, idx)
    req((k.year, k.month, k.idx, k.day) == (year, month, idx, (1, 11, 21)[idx - 1]), "Dekad(%d) fields %s" % (raw, (k.year, k.month, k.idx, k.day)),
        "dekad fields")
    req(k.start_date == s and k.start_date.day in (1, 11, 21), "Dekad(%d).start_date %r" % (raw, k.start_date), "dekad start_date")
    req(hash(k) == hash(Dekad(str(k))) and k == Dekad(str(k)), "equal dekads hash differently (%d)" % raw, "dekad hash")
    if raw < RAW_MAX:
        n = k + 1
        req(k.ndays == nd, "Dekad(%s).ndays = %d, calendar says %d" % (k, k.ndays, nd), "dekad ndays")
        req(k.end_date == e, "Dekad(%s).end_date = %r, model %r" % (k, k.end_date, e), "dekad end_date")
        req(n.start_date == k.end_date + dt.timedelta(microseconds=1), "dekads %s and %s do not abut" % (k, n), "dekad abutting")
        req(n.start_date > k.start_date, "start dates not increasing at %s" % k, "dekad order")
        req(k < n and k <= n and n > k and n >= k and k != n and not (k > n) and not (k >= n) and not (n < k) and not (n <= k) and not (k == n),
            "comparisons of %s and %s do not follow chronology" % (k, n), "dekad comparisons")
        req(k <= k and k >= k and not (k < k) and not (k > k), "reflexive comparisons fail for %s" % k, "dekad comparisons")
    else:
        try:
            k.end_date
            raise Violation("end_date of the last dekad did not overflow", "dekad last end_date")
        except OverflowError:
            pass
    if idx == 3:
        tot = sum(Dekad(raw - j).ndays for j in range(3)) if raw < RAW_MAX else None
        if tot is not None:
            req(tot == calendar.monthrange(year, month)[1], "ndays of %04d-%02d sum to %d" % (year, month, tot), "dekad month sum")
    for o in OFFSETS:
        r2 = raw + o
        if RAW_MIN <= r2 <= RAW_MAX:
            a = k + o
            req(isinstance(a, Dekad) and a.raw == r2 and (a - k) == o and (a - o) == k and (o + k) == a,
                "offset algebra fails for %s and n=%d" % (k, o), "dekad offset algebra")
            req((a > k) == (o > 0) and (a < k) == (o < 0), "order after offset %d from %s" % (o, k), "dekad order")


def sub_day(case):
    check_day(dt.date.fromisoformat(case["date"]))


def sub_dekad(case):
    check_dekad(int(case["raw"]))


def sub_instant(case):
    ts = dt.datetime.fromisoformat(case["ts"])
    k = Dekad(ts)
    m = model_fields(ts.date())
    req(k.raw == m["raw"] and str(k) == m["label"], "Dekad(%r) = %s, model %s" % (ts, k, m["label"]), "dekad fields")
    if m["raw"] != RAW_MAX:
        req(k.start_date <= ts <= k.end_date, "instant %r outside [%r, %r]" % (ts, k.start_date, k.end_date), "dekad membership")
        if m["raw"] > RAW_MIN:
            req(not ((k - 1).start_date <= ts <= (k - 1).end_date) and not ((k + 1).start_date <= ts), "instant %r also in a neighbour dekad" % ts,
                "dekad partition")


def sub_offsets(case):
    a, b = int(case["a"]), int(case["b"])
    ka, kb = Dekad(a), Dekad(b)
    n = b - a
    req((ka + n) == kb and (kb - ka) == n and (kb - n) == ka and (n + ka) == kb, "offset algebra: %s + %d vs %s" % (ka, n, kb), "dekad offset algebra")
    req((ka < kb) == (a < b) and (ka <= kb) == (a <= b) and (ka > kb) == (a > b) and (ka >= kb) == (a >= b) and (ka == kb) == (a == b) and
        (ka != kb) == (a != b), "comparisons of %s and %s" % (ka, kb), "dekad comparisons")
    req((ka.start_date < kb.start_date) == (a < b), "chronology of %s and %s" % (ka, kb), "dekad order")
    req((hash(ka) == hash(kb)) or a != b, "hash", "dekad hash")
    # mixed operands
    for other in (str(kb), kb.raw, kb.start_date, kb.start_date.date()):
        req((ka < other) == (a < b) and (ka >= other) == (a >= b) and (ka == other) == (a == b) and (ka <= other) == (a <= b) and (ka > other) == (a > b),
            "comparison of %s with operand %r" % (ka, other), "dekad mixed comparisons")


def sub_accessor(case):
    unit = case.get("unit")
    if unit:
        # coarse datetime64 units reach every year 1..9999 (nanoseconds only span 1678..2261)
        arr = np.array(case["times"], dtype="datetime64[%s]" % unit)
        da = xr.DataArray(np.arange(arr.size), dims=("time",), coords={"time": arr})
        ts = [dt.datetime.fromisoformat(v) for v in case["times"]]
        ks = [Dekad(t) for t in ts]
        ts = pd.Index(ts, dtype=object)
    else:
        ts = pd.DatetimeIndex([pd.Timestamp(v) for v in case["times"]])
        da = xr.DataArray(np.arange(len(ts)), dims=("time",), coords={"time": ts})
        ks = [Dekad(t.to_pydatetime()) for t in ts]
    acc = call(".dekad accessor", lambda: da.time.dekad)
    pairs = {"idx": [k.idx for k in ks], "yidx": [k.yidx for k in ks], "ndays": [k.ndays for k in ks], "label": [str(k) for k in ks],
             "raw": [k.raw for k in ks], "linspace": [k.yidx - 1 for k in ks], "year": [k.year for k in ks], "month": [k.month for k in ks]}
    for name, want in pairs.items():
        got = call(".dekad.%s" % name, lambda: getattr(acc, name))
        req(isinstance(got, xr.DataArray) and list(got.values.tolist()) == want, ".dekad.%s = %s, scalar class %s (times %s)" % (
            name, got.values.tolist()[:6], want[:6], [str(t) for t in ts[:6]]), "accessor " + name)
    for name in ("start_date", "end_date"):
        got = call(".dekad.%s" % name, lambda: getattr(acc, name))
        want = [np.datetime64(getattr(k, name), "us") for k in ks]
        req([np.datetime64(v, "us") for v in got.values] == want, ".dekad.%s = %s, scalar class %s" % (name, got.values[:4], want[:4]), "accessor " + name)
    # and the scalar class itself against the calendar model
    for t, k in zip(ts, ks):
        m = model_fields(t.date())
        req(k.raw == m["raw"], "Dekad(%r).raw" % t, "dekad fields")
        req(str(k) == m["label"], "Dekad(%r) label" % t, "dekad fields")


def sub_history(case):
    """A history of operations on one dekad (offsets, reconstructions through label / raw / start_date) tracked by an integer model."""
    raw = int(case["start"])
    k = Dekad(raw)
    for op, arg in case["ops"]:
        if op in ("add", "radd", "sub"):
            n = int(arg)
            r2 = raw + n if op != "sub" else raw - n
            if not (RAW_MIN <= r2 <= RAW_MAX):
                continue
            k2 = k + n if op == "add" else (n + k if op == "radd" else k - n)
            req((k2 - k) == (r2 - raw) and (k - k2) == (raw - r2), "history: (%s %s %d) - before = %d, model %d" % (k, op, n, k2 - k, r2 - raw), "dekad offset algebra")
            req((k2 > k) == (r2 > raw) and (k2 == k) == (r2 == raw) and (k2 <= k) == (r2 <= raw), "history: order after %s %d from %s" % (op, n, k), "dekad order")
            k, raw = k2, r2
        elif op == "via_label":
            k = Dekad(str(k))
        elif op == "via_raw":
            k = Dekad(k.raw)
        elif op == "via_start":
            k = Dekad(k.start_date)
        elif op == "via_end" and raw < RAW_MAX:
            k = Dekad(k.end_date)
        elif op == "via_date":
            k = Dekad(k.start_date.date() + dt.timedelta(days=int(arg) % k.ndays if raw < RAW_MAX else 0))
        req(k.raw == raw and hash(k) == hash(Dekad(raw)) and k == Dekad(raw), "history: after %s the dekad is %s (raw %d), integer model %d" % (op, k, k.raw, raw),
            "dekad history diverges from integer model")
    year, rem = divmod(raw, 36)
    req((k.year, k.month, k.idx) == (year, rem // 3 + 1, rem % 3 + 1), "history: final fields of %s" % k, "dekad fields")


def sub_accessor_history(case):
    """One time coordinate object asked for its dekad properties again and again; in between the caller works on the arrays it was
    handed (in place, where the array lets it) or replaces the time labels in place. Every answer must equal the scalar class on the
    labels the object carries at that moment."""
    cur = [pd.Timestamp(v) for v in case["times"]]
    da = xr.DataArray(np.arange(len(cur)), dims=("time",), coords={"time": pd.DatetimeIndex(cur)})
    tt = da.time
    handed = {}
    for k, op in enumerate(case["ops"]):
        if op[0] == "get":
            name = op[1]
            got = call(".dekad.%s" % name, lambda: getattr(tt.dekad, name))
            ks = [Dekad(t.to_pydatetime()) for t in cur]
            want = [str(q) for q in ks] if name == "label" else [getattr(q, name) if name != "linspace" else q.yidx - 1 for q in ks]
            req(list(got.values.tolist()) == want, ".dekad.%s after the history %s = %s, scalar class on the current labels %s" % (
                name, [o[0] + ":" + str(o[1]) for o in case["ops"][:k + 1]], got.values.tolist()[:8], want[:8]), "accessor answer depends on earlier calls")
            handed[name] = got
        elif op[0] == "modify":
            r = handed.get(op[1])
            if r is not None and r.dtype.kind in "iu":
                try:
                    r.values[...] = r.values - int(op[2])  # e.g. y -= 1 to make an index zero-based
                except ValueError:
                    pass  # read-only result: nothing the caller can do to it
        elif op[0] == "shift_time":
            cur = [t + pd.Timedelta(days=int(op[1])) for t in cur]
            if op[2]:
                da["time"] = pd.DatetimeIndex(cur)
                tt = da.time
            else:
                tt["time"] = pd.DatetimeIndex(cur)


SUBS = {"accessor_history": sub_accessor_history, "history": sub_history, "day": sub_day, "dekad": sub_dekad, "instant": sub_instant, "offsets": sub_offsets, "accessor": sub_accessor}


def _worker(years):
    """Check every day and every dekad of the given years. Returns (ndays, ndekads, failure)."""
    nd = nk = 0
    try:
        for y in years:
            d = dt.date(y, 1, 1)
            one = dt.timedelta(days=1)
            while d.year == y:
                try:
                    check_day(d)
                except Violation as e:
                    return nd, nk, ("day", {"date": d.isoformat()}, str(e))
                nd += 1
                if d == dt.date.max:
                    break
                d += one
            for raw in range(36 * y, 36 * y + 36):
                try:
                    check_dekad(raw)
                except Violation as e:
                    return nd, nk, ("dekad", {"raw": raw}, str(e))
                nk += 1
    except Exception as e:  # noqa: BLE001 - an unexpected exception of the class under test is a finding too
        return nd, nk, ("day", {"date": d.isoformat()}, "unexpected %s: %s" % (type(e).__name__, e))
    return nd, nk, None


def run(ctx):
    rec = ctx.rec
    years = list(range(1, 10000))  # the whole calendar, in both tiers (about 35 s on 16 cores)
    shards = [years[i::64] for i in range(64)]
    with mp.Pool(16) as pool:
        results = pool.map(_worker, shards)
    nd = sum(r[0] for r in results)
    nk = sum(r[1] for r in results)
    fails = [r[2] for r in results if r[2]]
    rec.case("day", {"date": "%04d-01-01 .. %04d-12-31 (%d years)" % (years[0], years[-1], len(years))}, count=nd, cls="enumerated")
    rec.case("dekad", {"raw": "36*%d .. 36*%d+35" % (years[0], years[-1])}, count=nk, cls="enumerated")
    rec.bulk_nontrivial("day", {("d", i) for i in range(nd)})
    rec.bulk_nontrivial("dekad", {("k", i) for i in range(nk)})
    for sub, case, _msg in sorted(fails, key=lambda f: str(f[1]))[:3]:
        ctx.run_case(sub, case)
    complete = not fails
    if complete:
        rec.exhaustive_parts.append("every date 0001-01-01..9999-12-31 and every dekad 0001-01-d1..9999-12-d3")
    else:
        rec.exhaustive_parts.append("every date and dekad of %d selected years (quick tier)" % len(years))
    ctx.mod.EXHAUSTIVE_WHOLE = False  # the generated parts (intra-day instants, offset pairs) are sampled
    rec.extra["days_enumerated"] = nd
    rec.extra["dekads_enumerated"] = nk
    rec.extra["calendar_enumeration_complete"] = complete

    tsmax = int((LAST_TS - dt.datetime(1, 1, 1)).total_seconds()) - 1
    instants = st.builds(lambda s, us: {"ts": (dt.datetime(1, 1, 1) + dt.timedelta(seconds=s, microseconds=us)).isoformat()},
                         st.one_of(st.integers(0, tsmax), st.integers(0, tsmax // 86400 - 1).map(lambda k: k * 86400 + 86399)),
                         st.sampled_from([0, 1, 500000, 999999]))

    def f_i(case):
        rec.case("instant", case, nontrivial=True, cls="generated")
        sub_instant(case)

    ctx.given("instant", instants, ctx.n(3000, 60000), fn=f_i)

    def f_o(case):
        rec.case("offsets", case, nontrivial=True, cls="generated")
        sub_offsets(case)

    raws = st.one_of(st.integers(RAW_MIN, RAW_MAX), st.sampled_from([RAW_MIN, RAW_MAX, RAW_MIN + 1, RAW_MAX - 1, 36 * 2000, 36 * 2000 + 35]))
    near = raws.flatmap(lambda a: st.builds(lambda d: {"a": a, "b": max(RAW_MIN, min(RAW_MAX, a + d))}, st.integers(-40, 40)))
    ctx.given("offsets", st.one_of(st.builds(lambda a, b: {"a": a, "b": b}, raws, raws), near), ctx.n(3000, 60000), fn=f_o)

    def f_h(case):
        rec.case("history", case, nontrivial=len(case["ops"]) >= 2, cls="ops=%d" % min(len(case["ops"]), 10))
        sub_history(case)

    opst = st.one_of(st.tuples(st.sampled_from(["add", "radd", "sub"]), st.one_of(st.integers(-80, 80), st.integers(-400000, 400000))),
                     st.tuples(st.sampled_from(["via_label", "via_raw", "via_start", "via_end", "via_date"]), st.integers(0, 11)))
    hist = st.builds(lambda a, ops: {"start": a, "ops": [list(o) for o in ops]}, raws, st.lists(opst, min_size=1, max_size=30))
    ctx.given("history", hist, ctx.n(1500, 30000), fn=f_h)

    def f_a(case):
        rec.case("accessor", case, nontrivial=True, cls="n=%d" % min(len(case["times"]), 5))
        sub_accessor(case)

    def f_ah(case):
        kinds = [o[0] for o in case["ops"]]
        rec.case("accessor_history", case, nontrivial=kinds.count("get") >= 2 and ("modify" in kinds or "shift_time" in kinds), cls=["ops=%d" % len(kinds)] + sorted(set(kinds)))
        sub_accessor_history(case)

    props_ = st.sampled_from(["idx", "yidx", "raw", "ndays", "label", "linspace"])
    ah = st.builds(lambda y, doy, n, step, ops: {"times": [str(pd.Timestamp(year=y, month=1, day=1) + pd.Timedelta(days=doy + step * i)) for i in range(n)],
                                                  "ops": [list(o) for o in ops] + [["get", "yidx"], ["get", "raw"]]},
                   st.integers(1900, 2100), st.integers(0, 364), st.integers(1, 12), st.sampled_from([1, 5, 10, 11]),
                   st.lists(st.one_of(st.tuples(st.just("get"), props_), st.tuples(st.just("get"), props_),
                                      st.tuples(st.just("modify"), props_, st.sampled_from([1, -1, 36, 1000])),
                                      st.tuples(st.just("shift_time"), st.sampled_from([1, 10, 11, 365, -20]), st.booleans())), min_size=2, max_size=10))
    ctx.given("accessor_history", ah, ctx.n(300, 4000), fn=f_ah)

    lo, hi = pd.Timestamp("1678-01-01").value // 10 ** 9, pd.Timestamp("2261-12-31").value // 10 ** 9
    tstr = st.builds(lambda s, ns: str(pd.Timestamp(s * 10 ** 9 + ns)), st.integers(lo, hi), st.sampled_from([0, 1, 999999999]))
    ctx.given("accessor", st.builds(lambda t: {"times": t}, st.lists(tstr, min_size=1, max_size=12, unique=True)), ctx.n(150, 2500), fn=f_a)

    # dekadal axes (stamps on the 1st / 11th / 21st) with repeated dekads and missing dekads: sorted, looks regular, is not
    def _dekadal(year, k0, steps, hours):
        out, k = [], 36 * year + k0
        for st_, h in zip(steps, hours):
            k += st_
            y, r = divmod(k, 36)
            out.append(str(pd.Timestamp(year=y, month=r // 3 + 1, day=1 + 10 * (r % 3)) + pd.Timedelta(hours=h)))
        return {"times": sorted(out)}

    dk = st.integers(2, 14).flatmap(lambda n: st.builds(_dekadal, st.integers(1700, 2200), st.integers(0, 35),
                                                        st.lists(st.sampled_from([1, 1, 1, 0, 2, 3]), min_size=n, max_size=n),
                                                        st.lists(st.sampled_from([0, 0, 0, 6, 12]), min_size=n, max_size=n)))
    ctx.given("accessor", dk, ctx.n(150, 2000), fn=f_a)

    # long daily / dekadal records across leap and non-leap years (any per-array state in the accessor shows up here)
    def _daily(year, doy, n, step, hour, rev):
        t0 = pd.Timestamp(year=year, month=1, day=1) + pd.Timedelta(days=doy, hours=hour)
        ts = [str(t0 + pd.Timedelta(days=step * i)) for i in range(n)]
        return {"times": ts[::-1] if rev else ts}

    rng = st.builds(_daily, st.integers(1700, 2200), st.integers(0, 364), st.integers(300, 800), st.sampled_from([1, 1, 1, 5, 10]),
                    st.sampled_from([0, 0, 13]), st.booleans())
    ctx.given("accessor", rng, ctx.n(25, 300), fn=f_a, shrink=False)

    def _wide(unit, stamps):
        out = []
        for (y, doy, sec) in stamps:
            d = dt.datetime(y, 1, 1) + dt.timedelta(days=doy % (366 if calendar.isleap(y) else 365), seconds=sec)
            if (d.year, d.month, d.day >= 21) == (9999, 12, True):
                d = d.replace(day=20)  # the very last dekad has no end_date / ndays (documented)
            out.append(d.isoformat())
        return {"times": sorted(set(out)), "unit": unit}

    wide = st.builds(_wide, st.sampled_from(["s", "ms", "us"]),
                     st.lists(st.tuples(st.one_of(st.integers(1, 9999), st.integers(1, 999), st.sampled_from([1, 99, 100, 999, 1000, 1582, 9999])),
                                        st.integers(0, 365), st.sampled_from([0, 0, 46800, 86399])), min_size=1, max_size=12))
    ctx.given("accessor", wide, ctx.n(150, 2500), fn=f_a)
