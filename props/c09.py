"""C09 - SPI calibration window and grouping select exactly the intended samples."""
from __future__ import annotations

import datetime as dt

import numpy as np
import pandas as pd
import xarray as xr
from hypothesis import strategies as st

import hdc.algo  # noqa: F401
from hdc.algo.utils import get_calibration_indices, to_linspace
from harness import refs, history
from harness.core import Violation
from harness.util import call, req, fmt, expect_raises
from props import c07

PID = "C09"
LEVEL = "exploration"
RULE = ("Hypothesis draws sorted time axes (regular 5/10/30-day and irregular, 4..60 steps, stamped at midnight, at noon or at varying times of "
        "day), begin/end dates - optionally with a time of day - on / between / before / after steps (or omitted), group labelings (ints or strings such as '10','2'; interleaved or blocked; 1..6 groups in quick, up "
        "to 36 thorough) and int16 / float32 cubes of 1..3 pixels with high-variance values. Oracles: get_calibration_indices vs the "
        "set model {i: begin <= t_i <= end} per group; to_linspace vs a dict relabelling; spi() output == SciPy SPI fitted on exactly "
        "the modelled sample set (C07 tie rule) and attrs == str(first/last step of the window); grouped == per-group ungrouped spi() "
        "on isel(time=members) bit for bit; relabelling by an injective map leaves the output unchanged; one group == ungrouped; "
        "ValueError iff some (group's) window holds fewer than two steps. Non-trivial: begin/end not both default, or > 1 group; "
        "distinct by content hash. "
        " Added after the fourth seeded round: Sub-check 'long': daily axes of more than 32767 steps, ungrouped and with 2-3 groups. "
        " Added after the fifth seeded round: Generic 'history' sub-check for spi in which one query differs from the previous one in a single argument (e.g. only the arrangement of the same group labels).")
ASSUME = ["SciPy SPI reference of C07", "pandas date parsing of ISO dates"]

T0 = dt.date(1999, 12, 27)


def _axis(case):
    """Axis positions in (possibly fractional) days since T0: whole-day gaps plus an optional time of day per step."""
    days = np.cumsum([0] + list(case["gaps"])).astype(float)
    tod = case.get("tod")
    if tod:
        days = days + np.array(tod, dtype=float) / 24.0
    return pd.DatetimeIndex([pd.Timestamp(T0) + pd.Timedelta(hours=int(round(d * 24))) for d in days]), days


def _date(case, key):
    off = case.get(key)
    if off is None:
        return None
    hour = int(case.get(key + "_hour", 0))
    d = T0 + dt.timedelta(days=int(off))
    return str(d) if hour == 0 else "%s %02d:00" % (d, hour)


def _bound(case, key):
    off = case.get(key)
    return None if off is None else off + case.get(key + "_hour", 0) / 24.0


def _model_window(days, members, b, e):
    """Indices (positions inside the member sub-series) with b <= t <= e."""
    sub = days[members]
    lo = -np.inf if b is None else b
    hi = np.inf if e is None else e
    idx = np.nonzero((sub >= lo) & (sub <= hi))[0]
    return idx


def _cube(case, tix):
    arr = np.array(case["pixels"], dtype="float64").astype(case["dtype"])
    nd = case["nodata"]
    ok = np.array(case["ok"], dtype=bool)
    arr[~ok] = nd
    npx, nt = arr.shape
    da = xr.DataArray(arr.reshape(npx, 1, nt), dims=("y", "x", "time"), coords={"time": tix}, attrs={"nodata": nd})
    return da.transpose(*case.get("dims", ["time", "y", "x"])), arr, ok


def sub_indices(case):
    tix, days = _axis(case)
    b, e = _bound(case, "begin"), _bound(case, "end")
    bs = _date(case, "begin") or str(tix[0])
    es = _date(case, "end") or str(tix[-1])
    bb = b if b is not None else days[0]
    ee = e if e is not None else days[-1]
    labels = case.get("labels")
    if labels is None:
        got = call("get_calibration_indices", get_calibration_indices, tix, (bs, es))
        idx = _model_window(days, np.arange(days.size), bb, ee)
        want = (int(idx[0]), int(idx[-1]) + 1) if idx.size else None
        if want is None:
            req(got[0] >= got[1], "get_calibration_indices(%s..%s) = %s for an empty window" % (bs, es, got), "indices empty window")
        else:
            req(tuple(int(v) for v in got) == want, "get_calibration_indices(%s..%s) = %s, model %s (axis days %s)" % (bs, es, tuple(got), want, fmt(days, 20)),
                "calibration indices")
        return
    lab = np.array(labels)
    dense, keys = call("to_linspace", to_linspace, np.array(lab, dtype="str"))
    ks = sorted(set(str(v) for v in labels))
    mapping = {k: i for i, k in enumerate(ks)}
    want_dense = [mapping[str(v)] for v in labels]
    req(list(keys) == ks and [int(v) for v in dense] == want_dense, "to_linspace(%s) = %s keys %s, dict model %s keys %s" % (
        fmt(lab, 12), fmt(dense, 12), list(keys)[:8], want_dense[:12], ks[:8]), "to_linspace")
    g = np.array(want_dense, dtype="int16")
    got = call("get_calibration_indices(groups)", get_calibration_indices, tix, (bs, es), g, len(ks))
    for k in range(len(ks)):
        members = np.nonzero(g == k)[0]
        idx = _model_window(days, members, bb, ee)
        if idx.size:
            req((int(got[k, 0]), int(got[k, 1])) == (int(idx[0]), int(idx[-1]) + 1),
                "get_calibration_indices group %d = %s, model %s" % (k, tuple(got[k]), (int(idx[0]), int(idx[-1]) + 1)), "calibration indices (group)")
        else:
            req(got[k, 0] >= got[k, 1], "group %d: indices %s for an empty window" % (k, tuple(got[k])), "indices empty window")


def _spi(da, case, groups=None):
    kw = {}
    if case.get("begin") is not None:
        kw["calibration_begin"] = _date(case, "begin")
    if case.get("end") is not None:
        kw["calibration_end"] = _date(case, "end")
    if groups is not None:
        kw["groups"] = groups
    return da.hdc.algo.spi(**kw)


def sub_spi(case, rec=None):
    tix, days = _axis(case)
    da, arr, ok = _cube(case, tix)
    nt = days.size
    b, e = _bound(case, "begin"), _bound(case, "end")
    bb = b if b is not None else days[0]
    ee = e if e is not None else days[-1]
    labels = case.get("labels")
    if labels is None:
        groups_members = [np.arange(nt)]
    else:
        ks = sorted(set(str(v) for v in labels))
        groups_members = [np.array([i for i, v in enumerate(labels) if str(v) == k]) for k in ks]
    windows = [_model_window(days, m, bb, ee) for m in groups_members]
    invalid = any(w.size < 2 for w in windows)
    glist = None if labels is None else list(labels)
    if invalid:
        expect_raises("spi() with a calibration window of fewer than two steps (begin=%s end=%s, window sizes %s)" % (
            _date(case, "begin"), _date(case, "end"), [int(w.size) for w in windows]), (ValueError,), lambda: _spi(da, case, glist))
        return "invalid_window"
    res = call("spi()", lambda: _spi(da, case, glist))
    req(res.dtype == np.int16, "spi() dtype %s" % res.dtype, "spi dtype")
    allw = np.sort(np.concatenate([m[w] for m, w in zip(groups_members, windows)]))
    inwin = np.nonzero((days >= bb) & (days <= ee))[0]
    req(res.attrs.get("spi_calibration_begin") == str(tix[inwin[0]]) and res.attrs.get("spi_calibration_end") == str(tix[inwin[-1]]),
        "spi attrs begin/end = %s / %s, first/last step in the window = %s / %s" % (
            res.attrs.get("spi_calibration_begin"), res.attrs.get("spi_calibration_end"), tix[inwin[0]], tix[inwin[-1]]), "spi attrs")
    out = res.transpose("y", "x", "time").values.reshape(arr.shape)
    why = None
    nd = case["nodata"]
    for px in range(arr.shape[0]):
        for m, w in zip(groups_members, windows):
            x = arr[px][m]
            o = out[px][m]
            ref = refs.spi_reference(x.astype(np.float64), ok[px][m], (int(w[0]), int(w[-1]) + 1))
            if ref["fittable"] is False:
                req(bool((o == nd).all()), "spi(): unfittable pixel-group (%s) not nodata: %s" % (ref["reason"], fmt(o)), "spi unfittable")
                continue
            wy = c07._compare("spi() pixel %d" % px, o, x, ok[px][m], nd, (int(w[0]), int(w[-1]) + 1), case, rec)
            why = why or wy
    return why


def sub_decompose(case):
    """grouped == per-group ungrouped; relabelling; single group == ungrouped (bit for bit)."""
    tix, days = _axis(case)
    da, arr, ok = _cube(case, tix)
    labels = list(case["labels"])
    ks = sorted(set(str(v) for v in labels))
    try:
        res = _spi(da, case, labels)
    except ValueError:
        return "invalid_window"
    except Exception as ex:  # noqa: BLE001
        raise Violation("spi(groups) raised %s: %s" % (type(ex).__name__, str(ex)[:200]), "spi(groups) raised")
    out = res.transpose("time", "y", "x").values
    # relabel by an injective map
    perm = case["relabel"]
    mapping = {k: perm[i] for i, k in enumerate(ks)}
    res2 = call("spi(relabelled groups)", lambda: _spi(da, case, [mapping[str(v)] for v in labels]))
    req(np.array_equal(res2.transpose("time", "y", "x").values, out), "spi() changes when the groups %s are relabelled to %s" % (ks[:6], perm[:6]),
        "relabelling changes result")
    # per group ungrouped
    for k in ks:
        m = np.array([i for i, v in enumerate(labels) if str(v) == k])
        sub = da.isel(time=m)
        one = call("spi() on one group's sub-series", lambda: _spi(sub, case))
        req(np.array_equal(one.transpose("time", "y", "x").values, out[m]),
            "grouped spi() differs from the ungrouped spi() of group %r's sub-series: %s vs %s" % (k, fmt(out[m].ravel(), 16),
                                                                                                   fmt(one.transpose("time", "y", "x").values.ravel(), 16)),
            "group decomposition")
    return None


def _expand_long(case):
    """Compact description of a daily axis of more than 32767 steps (positions beyond the int16 range) -> ordinary case."""
    n = int(case["n"])
    full = {"gaps": [1] * (n - 1), "axis": "long", "begin": case.get("begin"), "end": case.get("end"), "dtype": case["dtype"], "nodata": -9999,
            "pixels": [[1 + (t * t * 7 + t * 13 + int(case.get("salt", 0))) % 2999 for t in range(n)]],
            "ok": [[(t * 31 + 7) % 97 != 0 for t in range(n)]], "dims": case.get("dims", ["time", "y", "x"])}
    ng = int(case.get("ngroups", 0))
    if ng:
        names = ["10", "2", "a"][:ng]
        full["labels"] = [names[t % ng] if case.get("layout") == "interleaved" else names[min(ng - 1, t * ng // n)] for t in range(n)]
        full["layout"] = case.get("layout", "blocked")
        full["relabel"] = [7, 3, 5][:ng]
    return full


def sub_long(case, rec=None):
    full = _expand_long(case)
    sub_indices(full)
    why = sub_spi(full, rec)
    if "labels" in full and why is None:
        sub_decompose(full)
    return why


HQ = {"spi": history.q_spi}


def sub_history(case):
    """One cube asked for its SPI again and again - other windows, other arrangements of the same group labels - while attributes,
    cells and time labels are edited in place: every answer equals that of a brand-new object with the same content."""
    history.run_history(case, HQ, PID)

SUBS = {"history": sub_history, "indices": sub_indices, "spi": sub_spi, "decompose": sub_decompose, "long": sub_long}

LABEL_POOLS = [list(range(40)), [str(i) for i in range(40)], ["g%d" % i for i in range(40)], ["10", "2", "1", "a", "B", "-3", "07", "7"] + ["z%d" % i for i in range(32)]]


@st.composite
def axis_case(draw, maxgroups, with_cube=True, need_groups=False):
    nt = draw(st.one_of(st.integers(4, 12), st.integers(4, 60)))
    kind = draw(st.sampled_from(["r5", "r10", "r30", "irregular"]))
    if kind == "irregular":
        gaps = draw(st.lists(st.integers(1, 40), min_size=nt - 1, max_size=nt - 1))
    else:
        gaps = [int(kind[1:])] * (nt - 1)
    total = sum(gaps)
    case = {"gaps": gaps, "axis": kind}
    todk = draw(st.sampled_from(["midnight", "midnight", "noon", "varying"]))
    if todk == "noon":
        case["tod"] = [12] * nt
    elif todk == "varying":
        case["tod"] = draw(st.lists(st.sampled_from([0, 6, 12, 18, 23]), min_size=nt, max_size=nt))
    case["axis"] = kind + "/" + todk
    pick = st.one_of(st.none(), st.integers(-20, total + 20), st.sampled_from(list(np.cumsum([0] + gaps))).map(int))
    if draw(st.integers(0, 9)) < 7:
        # mostly usable windows: begin in the first part, end in the last part (on, between or beyond steps)
        case["begin"] = draw(st.one_of(st.none(), st.integers(-20, total // 3), st.sampled_from([0] + list(np.cumsum(gaps[:max(1, nt // 3)]))).map(int)))
        case["end"] = draw(st.one_of(st.none(), st.integers(2 * total // 3, total + 20),
                                     st.sampled_from(list(np.cumsum([0] + gaps))[2 * nt // 3:]).map(int)))
    else:
        case["begin"] = draw(pick)
        case["end"] = draw(pick)
    for key in ("begin", "end"):
        if case[key] is not None and draw(st.integers(0, 2)) == 0:
            case[key + "_hour"] = draw(st.sampled_from([6, 12, 13, 23]))
    if need_groups or draw(st.booleans()):
        ng = draw(st.integers(1, min(maxgroups, max(1, nt // 2))))
        pool = draw(st.sampled_from(LABEL_POOLS))
        names = draw(st.lists(st.sampled_from(pool), min_size=ng, max_size=ng, unique_by=str))
        lay = draw(st.sampled_from(["interleaved", "blocked", "random"]))
        if lay == "interleaved":
            labels = [names[t % ng] for t in range(nt)]
        elif lay == "blocked":
            labels = [names[min(ng - 1, t * ng // nt)] for t in range(nt)]
        else:
            labels = draw(st.lists(st.sampled_from(names), min_size=nt, max_size=nt))
        case["labels"] = labels
        case["layout"] = lay
        ks = sorted(set(str(v) for v in labels))
        alt = draw(st.sampled_from([p for p in LABEL_POOLS]))
        case["relabel"] = list(draw(st.permutations(alt[:len(ks)])))
    if with_cube:
        npx = draw(st.integers(1, 3))
        case["dtype"] = draw(st.sampled_from(["int16", "float32"]))
        case["nodata"] = draw(st.sampled_from([-9999, -32768]))
        case["pixels"] = [draw(st.lists(st.one_of(st.integers(0, 3000), st.integers(1, 40)), min_size=nt, max_size=nt)) for _ in range(npx)]
        case["ok"] = [[draw(st.integers(0, 11)) != 0 for _ in range(nt)] for _ in range(npx)]
        case["dims"] = list(draw(st.permutations(["time", "y", "x"])))
    return case


def _nontrivial(case):
    return case.get("begin") is not None or case.get("end") is not None or len(set(map(str, case.get("labels", [0])))) > 1


def run(ctx):
    rec = ctx.rec
    mg = ctx.n(6, 36)

    def f_idx(case):
        rec.case("indices", case, nontrivial=_nontrivial(case), cls=["axis:" + case["axis"], "groups" if "labels" in case else "nogroups"])
        sub_indices(case)

    ctx.given("indices", axis_case(mg, with_cube=False), ctx.n(800, 10000), fn=f_idx)

    def f_spi(case):
        why = sub_spi(case, rec)
        if why:
            rec.discard("spi", why.split(":")[0])
        rec.case("spi", case, nontrivial=_nontrivial(case), cls=["axis:" + case["axis"], "groups" if "labels" in case else "nogroups",
                                                                  "dtype:" + case["dtype"], "invalid" if why == "invalid_window" else "valid",
                                                                  "begin:%s" % ("none" if case["begin"] is None else "set"),
                                                                  "end:%s" % ("none" if case["end"] is None else "set")])

    ctx.given("spi", axis_case(mg), ctx.n(700, 9000), fn=f_spi)

    def f_long(case):
        why = sub_long(case, rec)
        if why:
            rec.discard("long", why.split(":")[0])
        rec.case("long", case, nontrivial=True, cls=["long:groups=%d" % case.get("ngroups", 0), "dtype:" + case["dtype"]])

    longs = st.integers(32769, 33500).flatmap(lambda n: st.fixed_dictionaries({
        "n": st.just(n), "begin": st.one_of(st.none(), st.integers(-5, n // 4)), "end": st.one_of(st.none(), st.integers(32768, n + 5)),
        "dtype": st.sampled_from(["int16", "float32"]), "ngroups": st.sampled_from([0, 0, 2, 3]), "layout": st.sampled_from(["interleaved", "blocked"]),
        "salt": st.integers(0, 50), "dims": st.permutations(["time", "y", "x"]).map(list)}))
    ctx.given("long", longs, ctx.n(5, 40), fn=f_long, shrink=False)

    def f_dec(case):
        why = sub_decompose(case)
        if why:
            rec.discard("decompose", why)
        ng = len(set(map(str, case["labels"])))
        rec.case("decompose", case, nontrivial=why is None, cls=["groups=%d" % min(ng, 7), "layout:" + case["layout"], "dtype:" + case["dtype"]])

    ctx.given("decompose", axis_case(mg, need_groups=True), ctx.n(350, 5000), fn=f_dec)


_run_before_history = run


def run(ctx):  # noqa: F811
    _run_before_history(ctx)

    def f_hist(case):
        ctx.rec.case("history", case, nontrivial=history.nontrivial(case), cls=history.classes(case))
        sub_history(case)

    ctx.given("history", history.history_case({"spi": history.spi_args}, dtypes=("int16", "float32"), nt=(12, 24), attrs0={"nodata": -9999},
                                              cells=st.one_of(st.integers(1, 3000), st.integers(1, 40), st.sampled_from([-9999, 0]))), ctx.n(200, 2500), fn=f_hist)
