"""C20 - temporal interpolation averages the daily Whittaker curve per period."""
from __future__ import annotations

from fractions import Fraction as F

import sys
import numpy as np
import pandas as pd
import xarray as xr
from hypothesis import strategies as st

import hdc.algo  # noqa: F401
from hdc.algo import ops
from harness import gens, refs
from harness.util import call, req, fmt

PID = "C20"
LEVEL = "exploration"
RULE = ("[seventh seeded round] sub-check 'buffers': the caller's template / label arrays refilled in place between whitint calls must be read afresh (oracle: brand-new arrays of the same content). " +
        "[sixth seeded round] sub-check 'joint': two lazy whitint results of one dask cube under two labelings with equally many periods, evaluated in one graph, must each equal their in-memory result. " +
        "Hypothesis draws 5..120 (thorough ..400) int16 observations (classes random / seasonal / constant / linear in day number), mark "
        "spacings regular 5/8/10/16 days or irregular 1..20 days, 0..15 lead and tail days (daily length <= 4000), and contiguous daily "
        "labelings (pentad-, dekad-, month-like or irregular runs; label values ascending, descending or wrapping like dekad-of-year), through ops.tinterpolate and DataArray.hdc.whit.whitint. Oracle: "
        "independent daily-curve model (scatter, LAPACK solve with lambda=1e-5 and weight only on marks, means over runs of equal labels, "
        "half-even rounding; tie width calibrated from two LAPACK solvers); constant -> that constant in every period; linear -> the "
        "exact period means of the line computed in rationals; template and labels bit-identical after the call. Non-trivial: not the "
        "suite's 5-observation / 51-day example, i.e. every generated case; distinct by content hash. "
        " Added after the fifth seeded round: Strided template / labels / observations; generic 'history' sub-check for whitint.")
ASSUME = ["LAPACK banded Cholesky / LU as reference", "periods whose mean leaves int16 (edge extrapolation) are discarded and counted"]


def _layout(case):
    gaps = case["gaps"]
    pos = [case["lead"]]
    for g in gaps:
        pos.append(pos[-1] + g)
    m = pos[-1] + 1 + case["tail"]
    template = np.zeros(m, dtype="float64")
    template[pos] = 1.0
    labels = np.zeros(m, dtype="int32")
    runs = case["runs"]
    i, k = 0, 0
    l0, step, mode = case.get("label0", 0), case.get("label_step", 1), case.get("label_mode", "ascending")

    def lab(k):
        # distinct label per run; the order of the numeric values is not part of the contract (dekad-of-year wraps 36 -> 1)
        if mode == "descending":
            return l0 + 5000 - step * k
        if mode == "wrap":
            return (l0 + k) % max(400, m + 1) + 1  # never repeats a label: one output slot per distinct label is the contract
        return l0 + step * k

    bounds = []
    for r in runs:
        j = min(m, i + r)
        labels[i:j] = lab(k)
        bounds.append((i, j - 1))
        k += 1
        i = j
        if i >= m:
            break
    if i < m:
        labels[i:] = lab(k)
        bounds.append((i, m - 1))
    return np.array(pos), template, labels, bounds


def sub_kernel(case, via_accessor=False):
    x = np.array(case["x"], dtype="int16")
    pos, template, labels, bounds = _layout(case)
    nper = len(bounds)
    ldt = case.get("label_dtype", "int32")
    if ldt != "int32" and via_accessor and labels.min() >= np.iinfo(ldt).min and labels.max() <= np.iinfo(ldt).max:
        labels = labels.astype(ldt)  # the accessor accepts any integer label dtype that casts safely to int32
    if case.get("layout") == "strided":
        # template / labels / observations handed over as views with a non-unit stride (a column of a calendar table, every
        # second entry of a half-daily axis): same values, so the same result
        def strided(a, fill):
            buf = np.empty(2 * a.size, dtype=a.dtype)
            buf[0::2] = a
            buf[1::2] = fill
            return buf[0::2]
        template = strided(template, 1.0 - template)
        labels = strided(labels, labels[::-1])
        if not via_accessor:
            x = strided(x, x[::-1])
    t0, l0 = template.copy(), labels.copy()
    if via_accessor:
        npx = case.get("npx", 1)
        cube = np.stack([x] * npx).reshape(npx, 1, x.size)
        cube[-1, 0, :] = x[::-1] if npx > 1 else x
        da = xr.DataArray(cube, dims=("y", "x", "time"), coords={"time": pd.date_range("2000-01-01", periods=x.size, freq="D")})
        da = da.transpose(*case.get("dims", ["time", "y", "x"]))
        res = call("whitint", lambda: da.hdc.whit.whitint(labels, template))
        req(res.dims[-1] == "newtime" and res.sizes["newtime"] == nper and res.dtype == np.int16,
            "whitint dims %s sizes %s dtype %s (periods %d)" % (res.dims, dict(res.sizes), res.dtype, nper), "whitint shape")
        out = res.transpose("y", "x", "newtime").values[0, 0]
    else:
        out = call("tinterpolate", ops.tinterpolate, x, template, labels, np.zeros(nper, dtype="uint8"))
        req(out.shape == (nper,) and out.dtype == np.int16, "tinterpolate returns %s %s" % (out.shape, out.dtype), "tinterpolate shape")
    req(np.array_equal(template, t0) and np.array_equal(labels, l0), "the call modified its inputs (template / labels)", "inputs modified")
    o = out.astype(np.int64)
    kind = case.get("kind")
    desc = "(%d observations, %d days, %d periods, gaps %s, lead %d tail %d)" % (x.size, template.size, nper, fmt(case["gaps"], 8), case["lead"], case["tail"])
    if kind == "constant":
        req(bool((o == int(x[0])).all()), "constant series %d is not returned as that constant: %s %s" % (int(x[0]), fmt(o), desc), "constant not preserved")
        return None
    if kind == "linear":
        a, b = F(case["a_num"], case["a_den"]), case["b"]
        why = None
        for k, (s, e) in enumerate(bounds):
            mean = a * F(s + e, 2) + b
            if abs(mean) > 32766:
                why = "period_mean_leaves_int16"
                continue
            fl = mean.numerator // mean.denominator
            frac = mean - fl
            allowed = {fl, fl + 1} if frac == F(1, 2) else ({fl} if frac < F(1, 2) else {fl + 1})
            req(int(o[k]) in allowed, "series linear in day number (%s*d%+d): period %d (days %d..%d) has exact mean %s, got %d %s" % (
                a, b, k, s, e, float(mean), int(o[k]), desc), "linear period mean")
        return why
    # general: independent daily curve
    temp = np.zeros(template.size)
    temp[pos] = x.astype(np.float64)
    za = refs.banded_solve(temp, 1e-5, template)
    zb = refs.lu_solve(temp, 1e-5, template)
    ma = np.array([za[s:e + 1].mean() for s, e in bounds])
    mb = np.array([zb[s:e + 1].mean() for s, e in bounds])
    tau = 1e-6 + 50 * float(np.max(np.abs(ma - mb)))
    if tau >= 0.25:
        return "unresolvable_conditioning"
    ok_range = np.abs(ma) < 32766
    r = np.rint(ma)
    d = o - r.astype(np.int64)
    frac = np.abs(ma - np.floor(ma) - 0.5)
    bad = ok_range & ((np.abs(d) > 1) | ((d != 0) & (frac > tau)))
    if bad.any():
        k = int(np.nonzero(bad)[0][0])
        req(False, "period %d (days %d..%d): got %d, mean of the reference daily curve %.6f (tie width %.2g) %s" % (
            k, bounds[k][0], bounds[k][1], int(o[k]), ma[k], tau, desc), "period mean differs from reference")
    return None if ok_range.all() else "period_mean_leaves_int16"


def sub_accessor(case):
    return sub_kernel(case, via_accessor=True)


def sub_joint(case):
    """Two lazy whitint results of ONE dask-backed cube and one template under two different labelings with the same number of
    periods, evaluated in one graph (dask.compute(a, b), as a Dataset would): each must equal its own in-memory result."""
    import dask

    x = np.array(case["x"], dtype="int16")
    pos, template, labels, bounds = _layout(case)
    labels2 = (int(labels.max()) + int(labels.min()) - labels[::-1]).astype(labels.dtype)  # the same run lengths in reverse order
    npx = case.get("npx", 2)
    cube = np.stack([np.roll(x, k) for k in range(npx)]).reshape(npx, 1, x.size)
    da = xr.DataArray(cube, dims=("y", "x", "time"), coords={"time": pd.date_range("2000-01-01", periods=x.size, freq="D")})
    da = da.transpose(*case.get("dims", ["time", "y", "x"]))
    ea = call("whitint", lambda: da.hdc.whit.whitint(labels, template))
    eb = call("whitint", lambda: da.hdc.whit.whitint(labels2, template))
    lz = da.chunk({"y": 1, "x": -1, "time": -1})
    la = call("whitint (lazy)", lambda: lz.hdc.whit.whitint(labels, template))
    lb = call("whitint (lazy)", lambda: lz.hdc.whit.whitint(labels2, template))
    with dask.config.set(scheduler="synchronous"):
        ca, cb = call("dask.compute(a, b)", lambda: dask.compute(la, lb))
    for nm, e, c in (("first", ea, ca), ("second", eb, cb)):
        req(e.dims == c.dims and e.dtype == c.dtype and e.shape == c.shape, "whitint lazy vs eager: dims/dtype/shape %s %s %s vs %s %s %s" % (
            e.dims, e.dtype, e.shape, c.dims, c.dtype, c.shape), "whitint lazy shape")
        req(np.array_equal(e.values, c.values), "two lazy whitint results (labelings with run lengths %s and reversed) evaluated in one graph: the %s differs from its "
            "in-memory result: %s vs %s" % (fmt([b[1] - b[0] + 1 for b in bounds], 10), nm, fmt(c.values.ravel(), 12), fmt(e.values.ravel(), 12)), "joint lazy whitint results mixed up")
    return "labelings_coincide" if np.array_equal(labels, labels2) or np.array_equal(ea.values, eb.values) else None


def sub_buffers(case):
    """The caller keeps ONE template array and ONE label array and refills them in place between whitint calls (another mark
    layout / labeling of the same daily length): every call must answer for what the arrays hold at that moment - the same as a call
    with brand-new arrays of the same content - and results handed out earlier must keep their values."""
    x = np.array(case["x"], dtype="int16")
    pos, template, labels, bounds = _layout(case)
    tb, lb = template[::-1].copy(), (int(labels.max()) + int(labels.min()) - labels[::-1]).astype(labels.dtype)  # mirrored marks, mirrored runs
    npx = case.get("npx", 2)
    cube = np.stack([np.roll(x, k) for k in range(npx)]).reshape(npx, 1, x.size)
    da = xr.DataArray(cube, dims=("y", "x", "time"), coords={"time": pd.date_range("2000-01-01", periods=x.size, freq="D")})
    da = da.transpose(*case.get("dims", ["time", "y", "x"]))
    fresh = {"A": call("whitint", lambda: da.hdc.whit.whitint(labels.copy(), template.copy())).values.copy(),
             "B": call("whitint", lambda: da.hdc.whit.whitint(lb.copy(), tb.copy())).values.copy()}
    tbuf, lbuf = template.copy(), labels.copy()
    held = []
    for step, which in enumerate(case.get("seq", ["A", "B", "A"])):
        tbuf[:] = template if which == "A" else tb
        lbuf[:] = labels if which == "A" else lb
        other = fresh_da = da if step % 2 == 0 else da.copy(deep=True)  # the same cube object and a brand-new one in turn
        res = call("whitint (refilled buffers)", lambda: other.hdc.whit.whitint(lbuf, tbuf))
        req(res.shape == fresh[which].shape and np.array_equal(res.values, fresh[which]),
            "whitint call %d with the caller's template / label arrays refilled in place (sequence %s) answers %s, brand-new arrays of the same content give %s" % (
                step + 1, "".join(case.get("seq", ["A", "B", "A"])), fmt(res.values.ravel(), 12), fmt(fresh[which].ravel(), 12)), "whitint stale template / labels")
        held.append((which, res))
    for which, res in held:
        req(np.array_equal(res.values, fresh[which]), "a whitint result handed out earlier changed afterwards", "whitint result aliased")
    return "layouts_coincide" if np.array_equal(fresh["A"], fresh["B"]) and np.array_equal(template, tb) else None


SUBS = {"kernel": sub_kernel, "accessor": sub_accessor, "joint": sub_joint, "buffers": sub_buffers}


@st.composite
def tcase(draw, nmax, accessor=False):
    n = draw(st.one_of(st.integers(5, 12), st.integers(5, nmax)))
    sp = draw(st.sampled_from(["r5", "r8", "r10", "r16", "irregular"]))
    if sp == "irregular":
        gmax = max(1, min(20, 3900 // n))
        gaps = draw(st.lists(st.integers(1, gmax), min_size=n - 1, max_size=n - 1))
    else:
        g = min(int(sp[1:]), max(1, 3900 // n))
        gaps = [g] * (n - 1)
    lead, tail = draw(st.integers(0, 15)), draw(st.integers(0, 15))
    m = lead + sum(gaps) + 1 + tail
    m = max(m, 4)
    lab = draw(st.sampled_from(["pentad", "dekad", "month", "irregular", "daily"]))
    if lab == "irregular":
        runs = draw(st.lists(st.integers(1, 31), min_size=1, max_size=max(1, m // 4)))
    else:
        ln = {"pentad": 5, "dekad": 10, "month": 30, "daily": 1}[lab]
        first = draw(st.integers(1, ln))
        runs = [first] + [ln] * (m // ln + 1)
    kind = draw(st.sampled_from(["random", "seasonal", "seasonal", "constant", "linear"]))
    case = {"gaps": gaps, "lead": lead, "tail": tail, "runs": runs, "kind": kind, "spacing": sp, "labeling": lab,
            "label0": draw(st.sampled_from([0, 1, 36, 2000, 395])), "label_step": draw(st.sampled_from([1, 1, 3])),
            "label_mode": draw(st.sampled_from(["ascending", "ascending", "wrap", "descending"]))}
    pos = [lead]
    for g in gaps:
        pos.append(pos[-1] + g)
    if kind == "constant":
        case["x"] = [draw(st.integers(-10000, 10000))] * n
    elif kind == "linear":
        span = max(pos[-1] + tail, 1)
        a_den = draw(st.sampled_from([1, 1, 2, 5]))
        a_num = draw(st.integers(-(9000 * a_den // span), 9000 * a_den // span))
        # x must be integers at the marks: choose b so that a*d+b is integral at every mark -> require a_den | gaps... simplest: a_den=1 unless regular spacing
        if a_den != 1 and not (sp != "irregular" and all(g % a_den == 0 for g in gaps) and lead % a_den == 0):
            a_den, a_num = 1, a_num // a_den
        b = draw(st.integers(-500, 500))
        case.update(a_num=a_num, a_den=a_den, b=b)
        case["x"] = [int(F(a_num, a_den) * d + b) for d in pos]
    elif kind == "random":
        case["x"] = draw(st.lists(st.integers(-10000, 10000), min_size=n, max_size=n))
        if draw(st.integers(0, 3)) == 0:
            # anomalies: mixed sign, summing to exactly zero
            xs = draw(st.lists(st.integers(-2000, 2000), min_size=n - 1, max_size=n - 1))
            last = -sum(xs)
            if -10000 <= last <= 10000:
                case["x"] = xs + [last]
                case["zero_sum"] = True
    else:
        case["x"] = draw(gens.series(n=n, classes=["seasonal", "walk", "step", "flat_spikes"]))["y"]
    if accessor:
        case["label_dtype"] = draw(st.sampled_from(["int32", "int32", "int16", "uint8", "uint16", "int8"]))
        case["npx"] = draw(st.integers(1, 3))
        case["dims"] = list(draw(st.permutations(["time", "y", "x"])))
    if draw(st.integers(0, 3)) == 0:
        case["layout"] = "strided"
    return case


def run(ctx):
    rec = ctx.rec

    def f_k(case):
        why = sub_kernel(case)
        if why:
            rec.discard("kernel", why)
        rec.case("kernel", case, nontrivial=why is None, cls=["kind:" + case["kind"], "spacing:" + case["spacing"], "labeling:" + case["labeling"], "labels:" + case["label_mode"]])

    ctx.given("kernel", tcase(ctx.n(120, 400)), ctx.n(2500, 25000), fn=f_k)

    def f_a(case):
        why = sub_accessor(case)
        if why:
            rec.discard("accessor", why)
        rec.case("accessor", case, nontrivial=why is None, cls=["kind:" + case["kind"], "dims:" + "/".join(case["dims"])])

    ctx.given("accessor", tcase(60, accessor=True), ctx.n(400, 4000), fn=f_a)

    def f_j(case):
        why = sub_joint(case)
        if why:
            rec.discard("joint", why)
        rec.case("joint", case, nontrivial=why is None, cls=["kind:" + case["kind"], "labeling:" + case["labeling"]])

    def f_b(case):
        why = sub_buffers(case)
        if why:
            rec.discard("buffers", why)
        rec.case("buffers", case, nontrivial=why is None, cls=["kind:" + case["kind"], "seq:" + "".join(case["seq"])])

    ctx.given("buffers", st.builds(lambda c, q: dict(c, seq=q), tcase(40, accessor=True).filter(lambda c: c["kind"] != "constant"),
                                   st.sampled_from([["A", "B", "A"], ["A", "B"], ["B", "A", "A", "B"], ["A", "A", "B"]])), ctx.n(150, 2000), fn=f_b)

    ctx.given("joint", tcase(40, accessor=True).filter(lambda c: c["kind"] != "constant"), ctx.n(120, 1500), fn=f_j)


from harness import history as _history  # noqa: E402

_history.install(sys.modules[__name__], {"whitint": _history.q_whitint}, {"whitint": _history.WHITINT_ARGS}, n=(100, 1200), dtypes=("int16",),
                 attr_values=(-3000, 0), cells=st.integers(100, 3000), nt=(4, 10))
