"""C01 - the Whittaker core returns the exact penalised least-squares solution."""
from __future__ import annotations

import types
from fractions import Fraction as F

import numpy as np
from hypothesis import strategies as st, target

from hdc.algo.ops.ws2d import ws2d
from harness import gens, refs
from harness.util import call, req, fmt

PID = "C01"
LEVEL = "exploration"
RULE = ("[seventh seeded round] a quarter of the cases are preceded by a call that hands the core the same weight array with a NaN / inf observation at a weighted cell (result ignored): the arrays of the caller must be unchanged and the real call exact; y and w must come back unmodified from every call. " +
        "Hypothesis draws (n in 4..120 quick / 4..400 thorough with extra mass on 4..7, y integers |y|<=1e4 or dyadic "
        "floats, weight pattern from the gap classes none/isolated/runs/leading/trailing/lead_trail/all_but_k(k>=2)/"
        "alternating optionally scaled by fractional weights, log10(lambda) in [-6, 8] with extra mass at both ends). "
        "Oracle 1: ws2d's own code object run on Fractions equals Gaussian elimination on the dense normal equations "
        "(W + lam D'D) z = W y built from the definition of D, element for element. Oracle 2: compiled float64 ws2d "
        "vs that exact solution: forward error <= 1e-6 when kappa_2 <= 3e8, <= 64 kappa u always, normwise backward "
        "error <= 2e-14 always. Non-trivial: a zero or non-unit weight, or n <= 6, or lambda outside [1e-2, 1e3]; "
        "distinct by content hash. "
        " Added after the fourth seeded round: Lambda reaches the core as float, Python int, numpy int64 or float32; a weight class with one long zero-weight run (half the series or more) and lambda in 1e-6..1e-3 reaches the smallest pivots. "
        " Added after the fifth seeded round: y and w also in integer / bool / float32 dtypes; fill values (1e20 .. float64 max) at zero-weight cells.")
ASSUME = ["Python Fractions and numpy.linalg.cond are correct",
          "the float64 clause is decided relative to conditioning: the literal 1e-6 is demanded only for kappa_2 <= 3e8 "
          "(beyond that no float64 algorithm attains it; see DESIGN 2.5 / C01)"]

_pf = ws2d.py_func


def _fzeros(n, *_a, **_k):
    a = np.empty(n, dtype=object)
    a[:] = F(0)
    return a


_g = dict(_pf.__globals__)
_g["zeros"] = _fzeros
ws2d_exact = types.FunctionType(_pf.__code__, _g)


def _backward_error(z, y, lam, w):
    """|| A z - W y ||_inf / (||A||_inf ||z||_inf + ||W y||_inf) in rationals, for float z."""
    n = len(z)
    zf = [F(float(v)) for v in z]
    d0, d1, d2 = refs.penta_coeffs(n)
    lamf = F(lam)
    res = 0
    anorm = 0
    for i in range(n):
        s = (F(w[i]) + lamf * int(d0[i])) * zf[i]
        rowsum = abs(F(w[i]) + lamf * int(d0[i]))
        for off, dd in ((1, d1), (2, d2)):
            if i - off >= 0:
                c = lamf * int(dd[i - off])
                s += c * zf[i - off]
                rowsum += abs(c)
            if i + off < n:
                c = lamf * int(dd[i])
                s += c * zf[i + off]
                rowsum += abs(c)
        res = max(res, abs(s - F(w[i]) * F(y[i])))
        anorm = max(anorm, rowsum)
    znorm = max(abs(v) for v in zf)
    bnorm = max(abs(F(w[i]) * F(y[i])) for i in range(n))
    den = anorm * znorm + bnorm
    return float(res / den) if den else 0.0


def sub_ws2d(case, info=None):
    y = [float(v) for v in case["y"]]
    w = [float(v) for v in case["w"]]
    lam = float(10.0 ** case["loglam"]) if "loglam" in case else float(case["lam"])
    # lambda may reach the core as any real scalar type; the value is what counts
    lamtype = case.get("lamtype", "float")
    if lamtype in ("int", "npint"):
        lam = float(max(1, round(lam)))
        lam_arg = int(lam) if lamtype == "int" else np.int64(int(lam))
    elif lamtype == "f32":
        lam_arg = np.float32(lam)
        lam = float(lam_arg)
    else:
        lam_arg = lam
    n = len(y)
    ye = np.array([F(v) for v in y], dtype=object)
    we = np.array([F(v) for v in w], dtype=object)
    # oracle 1: identity in exact arithmetic
    ze = call("ws2d source on Fractions", ws2d_exact, ye, F(lam), we)
    zd = refs.exact_solve([F(v) for v in y], F(lam), [F(v) for v in w])
    for i in range(n):
        req(ze[i] == zd[i],
            "exact identity: ws2d in rational arithmetic differs from the solution of (W+lam D'D)z=Wy at index %d "
            "(n=%d, lam=%r, w=%s): %s vs %s" % (i, n, lam, fmt(w), float(ze[i]), float(zd[i])), "exact identity")
    # oracle 2: float64
    yf, wf = np.array(y), np.array(w)
    ya, wa = yf, wf
    if case.get("ydtype"):
        ya = yf.astype(case["ydtype"])       # integral series handed over in an integer dtype
    if case.get("wdtype"):
        wa = wf.astype(case["wdtype"])       # 0/1 masks handed over as bool / uint8 / int
    keep_y, keep_w = ya.copy(), wa.copy()
    if case.get("earlier") and ya.dtype.kind == "f":
        # an EARLIER call that handed the core the same weight array together with a series it cannot digest (a NaN / inf at a weighted
        # position): whatever that call returns or raises, it must leave nothing behind - the arrays of the caller least of all
        bad = ya.copy()
        pos = [i for i in range(n) if w[i] > 0]
        bad[pos[int(case["earlier"][0]) % len(pos)]] = {"nan": np.nan, "inf": np.inf, "-inf": -np.inf}[case["earlier"][1]]
        try:
            with np.errstate(all="ignore"):
                ws2d(bad, lam_arg, wa)
        except Exception:  # noqa: BLE001 - refusing such a series is fine
            pass
        req(np.array_equal(wa, keep_w), "an earlier ws2d call with a %s observation changed the caller's weight array: %s -> %s" % (
            case["earlier"][1], fmt(keep_w), fmt(wa)), "ws2d modified its weights")
    zf = call("ws2d", ws2d, ya, lam_arg, wa)
    req(np.array_equal(ya, keep_y) and np.array_equal(wa, keep_w), "ws2d modified its input arrays (y or w)", "ws2d modified its input")
    req(zf.shape == (n,), "ws2d returns shape %s" % (zf.shape,), "ws2d shape")
    zf = np.asarray(zf, dtype=np.float64)
    req(bool(np.isfinite(zf).all()), "ws2d returned non-finite values for n=%d lam=%r w=%s" % (n, lam, fmt(w)), "non-finite")
    zr = np.array([float(v) for v in zd])
    scale = max(float(np.max(np.abs(zr))), 1e-300)
    err = float(np.max(np.abs(zf - zr))) / scale
    kappa = refs.cond2(n, lam, wf)
    if info is not None:
        info.update(kappa=kappa, err=err)
    if kappa <= 3e8:
        req(err <= 1e-6, "float64 forward error %.3g > 1e-6 at kappa=%.3g (n=%d, lam=%r, w=%s)" % (err, kappa, n, lam, fmt(w)),
            "forward error 1e-6")
    req(err <= 64 * kappa * refs.U + 1e-15, "float64 forward error %.3g > 64*kappa*u = %.3g (n=%d, lam=%r, w=%s)" % (
        err, 64 * kappa * refs.U, n, lam, fmt(w)), "forward error kappa*u")
    be = _backward_error(zf, y, lam, w)
    if info is not None:
        info["be"] = be
    req(be <= 2e-14, "float64 backward error %.3g > 2e-14 (n=%d, lam=%r, w=%s)" % (be, n, lam, fmt(w)), "backward error")


SUBS = {"ws2d": sub_ws2d}

_DYADIC = st.builds(lambda m, e: m / 2.0 ** e, st.integers(-10000 * 64, 10000 * 64), st.integers(0, 6))


@st.composite
def cases(draw, nmax):
    # exact rational arithmetic costs ~n^2 bit operations per cell: the long tail gets a tenth of the draws
    n = draw(st.one_of(st.integers(4, 7), st.integers(4, 7), st.integers(4, 7), st.integers(8, 30), st.integers(8, 30),
                       st.integers(8, 30), st.integers(8, min(nmax, 120)), st.integers(8, min(nmax, 120)),
                       st.integers(8, min(nmax, 120)), st.integers(8, nmax)))
    if draw(st.integers(0, 5)) == 0:
        y = draw(st.lists(_DYADIC, min_size=n, max_size=n))
        ycls = "dyadic"
    else:
        s = draw(gens.series(n=n))
        y, ycls = s["y"], s["cls"]
    loglam = None
    if draw(st.integers(0, 7)) == 0:
        n = draw(st.integers(40, max(40, min(nmax, 100))))   # long enough for the run to matter
        if ycls != "dyadic":
            s = draw(gens.series(n=n))
            y, ycls = s["y"], s["cls"]
        else:
            y = draw(st.lists(_DYADIC, min_size=n, max_size=n))
        # interpolation regime: one long zero-weight run at an end (or inside) with a small lambda - the last pivots of the
        # factorisation become as small as ~3 lambda / L^3
        run = draw(st.integers(n // 2, n - 3))
        where = draw(st.sampled_from(["trailing", "trailing", "leading", "interior"]))
        a = {"trailing": n - run, "leading": 0}.get(where, draw(st.integers(1, n - run - 1)) if n - run - 1 >= 1 else 1)
        valid = [not (a <= i < a + run) for i in range(n)]
        if sum(valid) < 2:
            valid[0] = valid[1] = True
        g = {"gcls": "long_" + where, "valid": valid}
        loglam = draw(st.one_of(st.floats(-6.0, -3.0), st.floats(-6.0, -5.0), st.just(-6.0)))
    else:
        g = draw(gens.gap_mask(n, min_valid=2))
    w = [1.0 if v else 0.0 for v in g["valid"]]
    wcls = g["gcls"]
    if draw(st.integers(0, 3)) == 0:
        p = draw(st.floats(0.01, 0.99))
        fr = draw(st.lists(st.sampled_from([0.1, 0.5, 0.9, p, 1 - p, 1.0]), min_size=n, max_size=n))
        w = [a * b for a, b in zip(w, fr)]
        wcls += "+frac"
    if loglam is None:
        loglam = draw(gens.loglam(-6.0, 8.0))
    case = {"y": y, "w": w, "loglam": loglam, "ycls": ycls, "wcls": wcls}
    zero_w = [i for i in range(n) if w[i] == 0.0]
    if zero_w and draw(st.integers(0, 3)) == 0:
        # what a zero-weight cell holds is irrelevant to the solution: put the fill values rasters really carry there
        fill = draw(st.sampled_from([1e20, -3.4028234663852886e38, 9.969209968386869e36, -1e15, 1.7976931348623157e308]))
        y = list(y)
        for i in (zero_w if draw(st.booleans()) else zero_w[:1]):
            y[i] = fill
        case["y"] = y
        case["wcls"] = wcls = wcls + "+fill"
    if all(float(v) == int(v) and abs(v) < 2 ** 15 for v in case["y"]) and draw(st.integers(0, 3)) == 0:
        case["ydtype"] = draw(st.sampled_from(["int16", "int32", "int64", "float32"]))
    if all(v in (0.0, 1.0) for v in w) and draw(st.integers(0, 3)) == 0:
        case["wdtype"] = draw(st.sampled_from(["bool", "uint8", "int64", "float32"]))
    # a float32 lambda is combined with float64 arrays only: with bool / integer / float32 arrays Numba's typing rules would carry
    # out parts of the elimination in single precision, which is not the float64 execution the property speaks about
    lamtype = draw(st.sampled_from(["float"] * 5 + ["int", "npint"] + (["f32"] if "ydtype" not in case and "wdtype" not in case else [])))
    if lamtype != "float":
        case["lamtype"] = lamtype
    if draw(st.integers(0, 3)) == 0:
        case["earlier"] = [draw(st.integers(0, 400)), draw(st.sampled_from(["nan", "nan", "inf", "-inf"]))]
    return case


def run(ctx):
    bands = ctx.rec.extra.setdefault("kappa_bands", {})
    worst = ctx.rec.extra.setdefault("worst", {"err_over_kappa_u": 0.0, "backward_error": 0.0})

    def f(case):
        info = {}
        w = case["w"]
        lam = 10.0 ** case["loglam"]
        if case.get("lamtype") in ("int", "npint"):
            lam = float(max(1, round(lam)))
        nontrivial = any(v != 1.0 for v in w) or len(w) <= 6 or not (1e-2 <= lam <= 1e3)
        ctx.rec.case("ws2d", case, nontrivial=nontrivial, cls=["w:" + case["wcls"], "y:" + case["ycls"], "lam:" + case.get("lamtype", "float"), "ydtype:" + case.get("ydtype", "float64"), "wdtype:" + case.get("wdtype", "float64"),
                                                               "n<=7" if len(w) <= 7 else "n>7"] + (["after_a_faulty_call_on_the_same_weights"] if case.get("earlier") else []))
        sub_ws2d(case, info)
        k = info["kappa"]
        b = "kappa<=1e4" if k <= 1e4 else "kappa<=3e8" if k <= 3e8 else "kappa<=1e12" if k <= 1e12 else "kappa>1e12"
        bands[b] = bands.get(b, 0) + 1
        r = info["err"] / (k * refs.U)
        worst["err_over_kappa_u"] = max(worst["err_over_kappa_u"], r)
        worst["backward_error"] = max(worst["backward_error"], info["be"])
        if not ctx.quick:
            target(min(r, 1e6), label="err/(kappa u)")

    ctx.given("ws2d", cases(ctx.n(120, 400)), ctx.n(500, 5000), fn=f)
