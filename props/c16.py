"""C16 - zonal mean is the exact mean and count of valid pixels per zone."""
from __future__ import annotations

import math

import dask.array as da_
import numpy as np
import pandas as pd
import xarray as xr
from hypothesis import strategies as st

import hdc.algo  # noqa: F401
from hdc.algo.ops.zonal import do_mean
from harness.util import call, req, fmt

PID = "C16"
LEVEL = "exploration"
RULE = ("[seventh seeded round] sub-check 'blocks': zonal.mean on ten equally shaped time-step blocks of 1.44 million pixels evaluated by 8-16 threads at once (three times) must equal the in-memory result. " +
        "Hypothesis draws (T<=3) rasters from 1x1 to ~60x60 with 1..40 zones (incl. empty zones; zone rasters dense, with holes, sparse single pixels, anti-diagonal strips or patches with a tip, the rest carrying the zone nodata), nodata/NaN share "
        "0..100 %, int16/float32/float64 values, output dtype float32/float64, numpy and dask (time-chunked) inputs, and pixel "
        "permutations that keep (value, zone) pairs together; plus structured large rasters (one zone of 2^24+10 pixels in quick, up to "
        "5000x6000 = 3e7 pixels and 1000 zones in thorough) whose exact sums are known in closed form. Oracle: exact integer sums / "
        "math.fsum per zone; |mean - mean*| <= 2 ulp_dtype(mean*) (+ the a-priori bound n*2^-53*mean|x| of float64 recursive "
        "summation for non-integral float data), count == dtype(count*), empty zone -> (NaN, 0), permutation invariance within the "
        "same bound. Non-trivial: >= 2 pixels in some zone and (nodata present or >= 2 zones); distinct by content hash. "
        " Added after the fourth seeded round: Narrow integer cubes with a nodata attribute outside their dtype; sub-check 'history': cube and zone raster edited in place between zonal.mean()/do_mean() calls. "
        " Added after the fifth seeded round: Two lazy means over the same zone values with different zone nodata evaluated in one graph.")
ASSUME = ["Python integers / math.fsum as exact arithmetic"]


def _ulp(v, dtype):
    return float(np.spacing(np.dtype(dtype).type(abs(v)))) if np.isfinite(v) else 0.0


def exact_zonal(pix, zones, nz, nd, znd):
    """pix (Y,X) array, zones (Y,X) ints -> list of (mean (float|nan), count, mean_abs)."""
    out = []
    p = pix.ravel()
    z = zones.ravel()
    integral = np.issubdtype(p.dtype, np.integer)
    for k in range(nz):
        if k == znd:
            out.append((math.nan, 0, 0.0))
            continue
        v = p[(z == k)]
        v = v[v != nd]
        if not integral:
            v = v[~np.isnan(v)]
        n = int(v.size)
        if n == 0:
            out.append((math.nan, 0, 0.0))
        elif integral:
            s = int(v.astype(np.int64).sum())
            out.append((s / n, n, float(np.abs(v.astype(np.int64)).sum()) / n))
        else:
            vv = v.astype(np.float64)
            out.append((math.fsum(vv.tolist()) / n, n, math.fsum(np.abs(vv).tolist()) / n))
    return out


def _compare(what, res, pix3, zones, nz, nd, znd, dtype, exact_sum=False):
    T = pix3.shape[0]
    req(res.shape == (T, nz, 2) and res.dtype == np.dtype(dtype), "%s: result shape %s dtype %s" % (what, res.shape, res.dtype), what + " shape")
    integral = np.issubdtype(pix3.dtype, np.integer)
    for t in range(T):
        ex = exact_zonal(pix3[t], zones, nz, nd, znd)
        for k, (m, n, mabs) in enumerate(ex):
            gm, gc = float(res[t, k, 0]), float(res[t, k, 1])
            req(gc == float(np.dtype(dtype).type(n)), "%s: time %d zone %d: count %r, exact count %d" % (what, t, k, gc, n), what + " count")
            if n == 0:
                req(math.isnan(gm), "%s: time %d empty zone %d: mean %r, expected NaN" % (what, t, k, gm), what + " empty zone")
                continue
            tol = 2 * _ulp(m, dtype)
            if not integral and not exact_sum:
                tol += n * 2.0 ** -53 * mabs
            req(abs(gm - m) <= tol, "%s: time %d zone %d (%d valid pixels): mean %r, exact mean %r (tolerance %.3g)" % (what, t, k, n, gm, m, tol),
                what + " mean")


def _build(case):
    T, Y, X = case["shape"]
    dt = case["dtype"]
    pix = np.array(case["pixels"], dtype="float64").reshape(T, Y, X)
    ok = np.array(case["ok"], dtype=bool).reshape(T, Y, X)
    nd = case["nodata"]
    zones = np.array(case["zones"], dtype="int16").reshape(Y, X)
    arr = pix.astype(dt)
    if not ok.all():
        arr[~ok] = nd
    return arr, zones, nd


def sub_kernel(case):
    arr, zones, nd = _build(case)
    nz, znd, odt = case["nz"], case["znodata"], case["out_dtype"]
    res = call("do_mean", do_mean, arr, zones, nz, nd, znd, np.dtype(odt).type)
    _compare("do_mean", res, arr, zones, nz, nd, znd, odt)
    # permutation invariance: shuffle (value, zone) pairs
    perm = np.array(case["perm"])
    T, Y, X = arr.shape
    arr2 = arr.reshape(T, -1)[:, perm].reshape(T, Y, X)
    z2 = zones.ravel()[perm].reshape(Y, X)
    res2 = call("do_mean", do_mean, np.ascontiguousarray(arr2), np.ascontiguousarray(z2), nz, nd, znd, np.dtype(odt).type)
    _compare("do_mean (pixels rearranged)", res2, arr2, z2, nz, nd, znd, odt)
    req(np.array_equal(res[..., 1], res2[..., 1]), "counts change when pixels are rearranged", "do_mean permutation")


def sub_accessor(case):
    arr, zones, nd = _build(case)
    T, Y, X = arr.shape
    nz, znd, odt = case["nz"], case["znodata"], case["out_dtype"]
    if case.get("nan_cells") and arr.dtype.kind == "f":
        ok = np.array(case["ok"], dtype=bool).reshape(T, Y, X)
        arr = arr.copy()
        arr[~ok] = np.where(np.arange((~ok).sum()) % 2 == 0, np.nan, nd)  # NaN and nodata cells are both invalid
    data = arr
    if case.get("dask"):
        data = da_.from_array(arr, chunks=(1, Y, X))
    t = pd.date_range("2001-01-01", periods=T, freq="10D")
    xa = xr.DataArray(data, dims=("time", "lat", "lon"), coords={"time": t}, attrs={"nodata": nd})
    zd = zones if not case.get("dask") else da_.from_array(zones, chunks=(Y, X))
    za = xr.DataArray(zd, dims=("lat", "lon"), attrs={"nodata": znd})
    ids = list(range(100, 100 + nz))
    res = call("zonal.mean", lambda: xa.hdc.zonal.mean(za, ids, dtype=odt, dim_name=case.get("dim_name", "zones"), name=case.get("name")))
    req(res.dims == ("time", case.get("dim_name", "zones"), "stat"), "zonal.mean dims %s" % (res.dims,), "zonal dims")
    req(list(res.coords[case.get("dim_name", "zones")].values) == ids and list(res.coords["stat"].values) == ["mean", "valid"],
        "zonal.mean coords", "zonal coords")
    req(res.attrs.get("nodata") == nd, "zonal.mean attrs %s" % (res.attrs,), "zonal attrs")
    chk = np.where(np.isnan(arr), nd, arr) if arr.dtype.kind == "f" else arr
    z_ok2 = bool(np.all((zones == case.get("joint_znd")) | ((zones >= 0) & (zones < nz))))  # in contract under the second reading too
    if case.get("dask") and case.get("joint_znd") is not None and case["joint_znd"] != znd and z_ok2:
        # a second lazy mean over the SAME zone values read with another zone nodata value, evaluated in one graph with the first
        import dask
        znd2 = case["joint_znd"]
        za2 = xr.DataArray(zd, dims=("lat", "lon"), attrs={"nodata": znd2})
        res2 = call("zonal.mean (second zone nodata)", lambda: xa.hdc.zonal.mean(za2, ids, dtype=odt, dim_name=case.get("dim_name", "zones"), name=case.get("name")))
        with dask.config.set(scheduler="synchronous"):
            r1, r2 = dask.compute(res, res2)
        _compare("zonal.mean (evaluated together with a second result)", r1.values, chk, zones, nz, nd, znd, odt)
        _compare("zonal.mean with zone nodata %r (evaluated together with the result for zone nodata %r)" % (znd2, znd), r2.values, chk, zones, nz, nd, znd2, odt)
        return
    vals = res.values
    _compare("zonal.mean", vals, chk, zones, nz, nd, znd, odt)


def sub_large(case):
    """One structured large raster: zone k holds n_k pixels alternating between base and base+1 (closed-form exact mean)."""
    Y, X = case["shape"]
    nz = case["nz"]
    dt = case["dtype"]
    base = case["base"]
    n = Y * X
    idx = np.arange(n, dtype=np.int64)
    zones = (idx % nz).astype("int16").reshape(Y, X) if case["layout"] == "interleaved" else (idx * nz // n).astype("int16").reshape(Y, X)
    pix = (base + (idx // nz) % 2).astype(dt).reshape(1, Y, X)
    nd = -9999
    if case.get("nodata_every"):
        pix.reshape(-1)[::case["nodata_every"]] = nd
    odt = case["out_dtype"]
    res = call("do_mean", do_mean, pix, zones, nz, nd, -1, np.dtype(odt).type)
    # exact by integer arithmetic (values are integers)
    z = zones.ravel()
    p = pix.ravel().astype(np.int64)
    valid = p != nd
    cnt = np.bincount(z[valid], minlength=nz)
    sm = np.bincount(z[valid], weights=p[valid].astype(np.float64), minlength=nz)  # exact: |sum| < 2^53
    for k in range(nz):
        m = sm[k] / cnt[k]
        req(float(res[0, k, 1]) == float(np.dtype(odt).type(cnt[k])), "large raster: zone %d count %r, exact %d (%dx%d, %d zones, %s -> %s)" % (
            k, float(res[0, k, 1]), cnt[k], Y, X, nz, dt, odt), "do_mean count (large)")
        req(abs(float(res[0, k, 0]) - m) <= 2 * _ulp(m, odt), "large raster: zone %d of %d pixels: mean %r, exact %r (%dx%d, %d zones, %s -> %s)" % (
            k, cnt[k], float(res[0, k, 0]), m, Y, X, nz, dt, odt), "do_mean mean (large)")


def sub_history(case):
    """One cube object and one zone raster object, edited in place (zone ids, pixels, nodata attributes) between zonal.mean()
    calls - also through the bare kernel on the very same zone array: every answer must be the exact mean / count of the rasters
    as they are at that moment, and answers handed out earlier keep their values."""
    T, Y, X = case["shape"]
    nz = case["nz"]
    pix = np.array(case["pixels"], dtype=case["dtype"]).reshape(T, Y, X).copy()
    zon = np.array(case["zones"], dtype=case.get("zdtype", "int16")).reshape(Y, X).copy()
    t = pd.date_range("2001-01-01", periods=T, freq="10D")
    xa = xr.DataArray(pix, dims=("time", "lat", "lon"), coords={"time": t}, attrs={"nodata": case["nodata"]})
    za = xr.DataArray(zon, dims=("lat", "lon"), attrs={"nodata": case["znodata"]})
    held = []
    for k, op in enumerate(case["ops"]):
        kind = op[0]
        if kind == "set_zone":
            zon[op[1] % Y, op[2] % X] = op[3] % nz if op[3] >= 0 else za.attrs["nodata"]
        elif kind == "fill_zone_rows":
            zon[: (op[1] % Y) + 1, :] = op[2] % nz
        elif kind == "set_pixel":
            pix[op[1] % T, op[2] % Y, op[3] % X] = op[4]
        elif kind == "set_nodata":
            xa.attrs["nodata"] = op[1]
        elif kind == "set_znodata":
            if zon.dtype != np.uint8 and op[1] != za.attrs["nodata"]:
                # the marker of "outside every zone" changes: cells are re-encoded in place, then the attribute follows
                zon[zon == za.attrs["nodata"]] = op[1]
                za.attrs["nodata"] = op[1]
        elif kind in ("query", "kernel"):
            nd, znd = xa.attrs["nodata"], za.attrs["nodata"]
            if kind == "query":
                res = call("zonal.mean after %d operations" % k, lambda: xa.hdc.zonal.mean(za, list(range(nz)))).values
            else:
                res = call("do_mean after %d operations" % k, do_mean, pix, zon, nz, nd, znd, np.float32)
            hist = [o[0] for o in case["ops"][:k + 1]]
            _compare("%s on the same objects after the history %s" % ("zonal.mean" if kind == "query" else "do_mean", hist), res, pix, zon, nz, nd, znd, "float32")
            held.append((k, res, res.copy()))
    for k, res, snap in held:
        req(np.array_equal(res, snap, equal_nan=True), "the zonal result obtained at step %d changed afterwards" % k, "zonal result aliased")


def sub_blocks(case):
    """zonal.mean on a cube whose time steps are separate, equally shaped dask blocks of about a million pixels each, evaluated by several
    threads at once, against the in-memory call (means and counts alike)."""
    from harness import lazyblocks

    nt, ny, nx = case["shape"]
    rng = np.random.default_rng(int(case["salt"]))  # a pure function of the case
    cube = rng.integers(0, 2000, size=(nt, ny, nx)).astype(case.get("dtype", "int16"))
    cube += (np.arange(nt) * 37).astype(cube.dtype)[:, None, None]  # every time step has its own level: mixing steps shows in the means
    cube[rng.random((nt, ny, nx)) < 0.05] = -9999
    nz = int(case["nz"])
    zones = rng.integers(0, nz, size=(ny, nx)).astype("int16")
    zones[rng.random((ny, nx)) < 0.1] = -1
    xa = xr.DataArray(cube, dims=("time", "y", "x"), coords={"time": pd.date_range("2000-01-01", periods=nt, freq="10D")}, attrs={"nodata": -9999})
    za = xr.DataArray(zones, dims=("y", "x"), attrs={"nodata": -1})
    lazyblocks.check("zonal.mean()", lambda d: d.hdc.zonal.mean(za, list(range(nz)), dtype=case.get("odt", "float32")), xa, {"time": 1, "y": -1, "x": -1},
                     workers=case.get("workers", 8), repeats=case.get("repeats", 3))


SUBS = {"blocks": sub_blocks, "history": sub_history, "kernel": sub_kernel, "accessor": sub_accessor, "large": sub_large}


@st.composite
def raster(draw, accessor=False):
    T = draw(st.integers(1, 3))
    Y, X = draw(st.integers(1, 12)), draw(st.integers(1, 12))
    if draw(st.integers(0, 5)) == 0:
        Y, X = draw(st.integers(20, 60)), draw(st.integers(20, 60))
        if T * Y * X > 8000:  # Hypothesis lists stop at 8192 elements
            T = 1
    nz = draw(st.integers(1, 40))
    dt = draw(st.sampled_from(["int16", "float32", "float64", "int32"] if accessor else ["int16", "float32", "float64"]))
    n = T * Y * X
    kind = draw(st.sampled_from(["ints", "ints", "level", "floats"])) if dt not in ("int16", "int32") else draw(st.sampled_from(["ints", "level"]))
    if kind == "ints":
        vals = draw(st.lists(st.integers(-10000, 10000), min_size=n, max_size=n))
    elif kind == "level":
        b = draw(st.integers(-10000, 10000))
        vals = [b + v for v in draw(st.lists(st.integers(0, 1), min_size=n, max_size=n))]
    else:
        sc = draw(st.sampled_from([0.001, 0.1, 1.7, 123.456]))
        vals = [v * sc for v in draw(st.lists(st.integers(-10000, 10000), min_size=n, max_size=n))]
    share = draw(st.sampled_from([0, 0, 10, 50, 90, 100]))
    ok = [draw(st.integers(0, 99)) >= share for _ in range(n)]
    used = draw(st.integers(1, nz))
    znd = draw(st.sampled_from([-1, -1, 0, nz - 1, 255]))
    zones = draw(st.lists(st.integers(0, used - 1) if draw(st.booleans()) else st.sampled_from([0, used - 1]), min_size=Y * X, max_size=Y * X))
    zpat = "dense"
    if znd in (255, -1):
        zpat = draw(st.sampled_from(["dense", "holes", "sparse", "antidiagonal", "patch_with_tip"]))
        # pixels outside every zone carry the zone raster's nodata value (zones usually cover only part of a raster)
        if zpat == "holes":
            zones = [znd if draw(st.integers(0, 3)) == 0 else z for z in zones]
        elif zpat == "sparse":
            k = draw(st.integers(1, 3))
            keep = draw(st.lists(st.integers(0, Y * X - 1), min_size=min(k, Y * X), max_size=min(k, Y * X), unique=True))
            zones = [z if i in keep else znd for i, z in enumerate(zones)]
        elif zpat == "antidiagonal":
            zones = [z if (i // X) + (i % X) == min(Y, X) - 1 else znd for i, z in enumerate(zones)]
        elif zpat == "patch_with_tip" and Y >= 3 and X >= 3:
            r0, c0 = draw(st.integers(1, Y - 2)), draw(st.integers(0, X - 3))
            inside = lambda r, c: (r0 <= r and c0 <= c <= X - 2) or (r == r0 - 1 and c == X - 1)  # noqa: E731
            zones = [z if inside(i // X, i % X) else znd for i, z in enumerate(zones)]
    nd = draw(st.sampled_from([-9999, -32768, 0] if kind != "floats" else [-9999, -32768]))
    force32 = accessor and draw(st.integers(0, 3)) == 0
    if force32:
        # on purpose: a wide raster whose nodata value float32 cannot represent, nodata cells present, float32 output
        dt = draw(st.sampled_from(["float64", "int32"]))
        if dt == "int32" and kind == "floats":
            kind = "ints"
            vals = [int(v) for v in vals]
        if share == 0:
            ok = [draw(st.integers(0, 99)) >= 30 for _ in range(n)]
            share = 30
    if accessor and dt in ("float64", "int32") and (force32 or draw(st.booleans())):
        # nodata values that a narrower float type cannot represent exactly
        nd = draw(st.sampled_from([-9999.9, 1e20, -3.4e38] if dt == "float64" else [2147483647, -2147483647, 16777217]))
    if nd == 0:
        ok = [o and v != 0 for o, v in zip(ok, vals)]
    if dt in ("float64", "int32") and draw(st.integers(0, 2)) == 0:
        # valid pixels right next to the nodata value (they are data: only pixels EQUAL to nodata are missing)
        k = min(draw(st.integers(1, 4)), n)
        for q in draw(st.lists(st.integers(0, n - 1), min_size=k, max_size=k, unique=True)):
            if dt == "float64":
                vals[q] = float(np.nextafter(nd, 0)) if draw(st.booleans()) else nd + draw(st.sampled_from([1e-4, -1e-4, 1e-9 * max(1.0, abs(nd))]))
            else:
                vals[q] = int(max(-2147483647, min(2147483646, int(nd) + draw(st.sampled_from([1, -1, 40, -40])))))
            if vals[q] != nd:
                ok[q] = True
    if accessor and draw(st.integers(0, 7)) == 0:
        # a nodata attribute that no cell of a narrow integer cube can hold (uint8 with -1 / 256, int16 with a uint16 fill value):
        # every pixel is data, including the values such a number would turn into if it were forced into the cube's dtype
        dt = draw(st.sampled_from(["uint8", "int16"]))
        nd = draw(st.sampled_from([-1, 256, 511] if dt == "uint8" else [40000, 65535, -40000]))
        wrapped = int(np.array(nd, dtype="int64").astype(dt))
        lo, hi = (0, 255) if dt == "uint8" else (-10000, 10000)
        vals = [wrapped if draw(st.integers(0, 3)) == 0 else draw(st.integers(lo, hi)) for _ in range(n)]
        ok = [True] * n
        kind, share = "offdomain_nodata", 0
    case = {"shape": [T, Y, X], "pixels": vals, "ok": ok, "zones": zones, "nz": max(nz, 1), "znodata": znd, "nodata": nd, "dtype": dt,
            "out_dtype": "float32" if force32 else draw(st.sampled_from(["float32", "float64"])), "kind": kind, "share": share, "zpat": zpat}
    if znd == 255:
        case["nz"] = nz  # 255 never indexes a zone because it is skipped
    if accessor:
        case["dask"] = draw(st.booleans())
        case["nan_cells"] = draw(st.booleans())
        case["dim_name"] = draw(st.sampled_from(["zones", "adm"]))
        case["name"] = draw(st.sampled_from([None, "zm"]))
        if case["dask"] and draw(st.booleans()):
            case["joint_znd"] = draw(st.sampled_from([c for c in (-1, 0, 255, max(nz, 1) - 1) if c != znd]))
    else:
        case["perm"] = list(draw(st.permutations(list(range(Y * X)))))
    return case


def run(ctx):
    rec = ctx.rec

    # equally shaped time-step blocks of ~1.4 million pixels in flight at the same time (state shared between concurrent kernel calls)
    for k in range(ctx.n(2, 6)):
        case = {"shape": [10, 1200, 1200], "nz": [7, 40][k % 2], "salt": ctx.seed * 19 + k, "workers": [8, 16][k % 2], "dtype": ["int16", "float32"][k % 2],
                "odt": ["float32", "float64"][k % 2], "repeats": 3}
        rec.case("blocks", case, nontrivial=True, cls="blocks:" + case["dtype"])
        if not ctx.run_case("blocks", case):
            break

    def nontrivial(case):
        return len(case["zones"]) >= 2 and (case["share"] > 0 or len(set(case["zones"])) >= 2)

    def f_k(case):
        rec.case("kernel", {k: v for k, v in case.items() if k != "perm"}, nontrivial=nontrivial(case),
                 cls=["dtype:" + case["dtype"], "out:" + case["out_dtype"], "kind:" + case["kind"], "nodata_share:%d" % case["share"],
                      "znodata:%d" % case["znodata"], "zones:" + case["zpat"]])
        sub_kernel(case)

    ctx.given("kernel", raster(), ctx.n(400, 5000), fn=f_k)

    def f_a(case):
        rec.case("accessor", case, nontrivial=nontrivial(case), cls=["dask" if case["dask"] else "numpy", "dtype:" + case["dtype"], "out:" + case["out_dtype"], "zones:" + case["zpat"]])
        sub_accessor(case)

    ctx.given("accessor", raster(accessor=True), ctx.n(200, 3000), fn=f_a)

    @st.composite
    def hist(draw):
        T, Y, X = draw(st.integers(1, 2)), draw(st.integers(1, 5)), draw(st.integers(1, 5))
        nz = draw(st.integers(1, 4))
        nd = draw(st.sampled_from([-9999, 0, 255]))
        znd = draw(st.sampled_from([-1, 255, nz - 1]))
        cell = st.one_of(st.integers(-200, 200), st.sampled_from([-9999, 0, 255]))
        zcell = st.one_of(st.integers(0, nz - 1), st.just(znd))
        ops_ = draw(st.lists(st.one_of(
            st.tuples(st.just("query")), st.tuples(st.just("query")), st.tuples(st.just("kernel")),
            st.tuples(st.just("set_zone"), st.integers(0, 4), st.integers(0, 4), st.integers(-1, 3)),
            st.tuples(st.just("fill_zone_rows"), st.integers(0, 4), st.integers(0, 3)),
            st.tuples(st.just("set_pixel"), st.integers(0, 1), st.integers(0, 4), st.integers(0, 4), cell),
            st.tuples(st.just("set_nodata"), st.sampled_from([-9999, 0, 255])),
            st.tuples(st.just("set_znodata"), st.sampled_from([-1, 255]))), min_size=2, max_size=9))
        return {"shape": [T, Y, X], "nz": nz, "nodata": nd, "znodata": znd, "dtype": draw(st.sampled_from(["int16", "float32", "int32"])),
                "zdtype": draw(st.sampled_from(["int16", "int32", "uint8"])) if znd != -1 else draw(st.sampled_from(["int16", "int32"])),
                "pixels": draw(st.lists(cell, min_size=T * Y * X, max_size=T * Y * X)), "zones": draw(st.lists(zcell, min_size=Y * X, max_size=Y * X)),
                "ops": [list(o) for o in ops_] + [[draw(st.sampled_from(["query", "kernel"]))]]}

    def f_h(case):
        kinds = [o[0] for o in case["ops"]]
        rec.case("history", case, nontrivial=sum(k in ("query", "kernel") for k in kinds) >= 2 and any(k.startswith(("set_", "fill_")) for k in kinds),
                 cls=["ops=%d" % len(kinds)] + sorted(set(kinds)))
        sub_history(case)

    ctx.given("history", hist(), ctx.n(250, 3000), fn=f_h)

    # structured large rasters (closed-form exact means); the size is the point
    larges = [
        {"shape": [4097, 4096], "nz": 1, "dtype": "int16", "base": 1000, "layout": "blocked", "out_dtype": "float32"},   # 2^24 + 4096 pixels in one zone
        {"shape": [1500, 1500], "nz": 3, "dtype": "float32", "base": 1000, "layout": "interleaved", "out_dtype": "float32", "nodata_every": 7},
        {"shape": [1200, 1000], "nz": 1000, "dtype": "int16", "base": -7000, "layout": "interleaved", "out_dtype": "float32"},
        {"shape": [2000, 1500], "nz": 2, "dtype": "float64", "base": 9999, "layout": "blocked", "out_dtype": "float64", "nodata_every": 3},
    ]
    if not ctx.quick:
        larges += [
            {"shape": [5000, 6000], "nz": 1, "dtype": "int16", "base": 1000, "layout": "blocked", "out_dtype": "float32"},
            {"shape": [5000, 6000], "nz": 2, "dtype": "float32", "base": 5000, "layout": "interleaved", "out_dtype": "float32", "nodata_every": 11},
            {"shape": [5000, 5000], "nz": 1000, "dtype": "int16", "base": 20000, "layout": "blocked", "out_dtype": "float64"},
        ]
    for case in larges:
        rec.case("large", case, nontrivial=True, cls="pixels_per_zone>=%d" % (case["shape"][0] * case["shape"][1] // case["nz"]))
        ctx.run_case("large", case)
