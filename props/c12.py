"""C12 - results do not depend on laziness, chunking, layout or threading."""
from __future__ import annotations

import itertools
import json
import os
import subprocess
import sys
import warnings

import dask
import numpy as np
import pandas as pd
import xarray as xr
from hypothesis import strategies as st

import hdc.algo  # noqa: F401
from hdc.algo.ops._helper import lazycompile
from harness.core import Violation, ROOT
from harness.sched import Sched
from harness.util import call, req, fmt

PID = "C12"
LEVEL = "exploration"
RULE = ("Hypothesis draws, for each of 24 accessor operations (whits s/sg/p, whitsvc srange/p/lc, whitswcv robust/non-robust/p, whitint, "
        "spi with/without groups, lroo, croo, autocorr in both layouts, mktrend with/without nodata, mean_grp, rolling.sum, zonal.mean, "
        "iteragg.sum/mean), a cube (2..4 x 2..5 pixels, 6..24 steps, several input dtypes), a chunking of y/x (1-pixel, ragged, single), "
        "a scheduler (synchronous / threads with 1..16 workers), a dim order and a pixel permutation. Oracles: eager result == lazy "
        "result (values NaN-equal, dims, coords, dtype declared by the lazy object, dtype after compute), also when two lazy results on the same cube are evaluated in one graph; chunked time -> identical "
        "values or an exception; permuting pixels permutes results. ws2doptvplc_tyx under numba.set_num_threads(1..16) is bit-identical "
        "to 1 thread. First-call races of the lazy-compilation wrapper: all thread schedules with <= 2 (thorough: 3) switches for 2 and 3 threads are "
        "enumerated at line level with a stub compiler, opcode-level schedules are generated; real kernels are raced in fresh processes "
        "(2..16 threads). Non-trivial: lazy run with > 1 block, thread count > 1 or a schedule with >= 1 pre-emption; distinct by hash. "
        " Added after the fourth seeded round: Operations also with non-default dtype arguments (rolling.sum float64/int32, spi float32, zonal.mean float64). "
        " Added after the fifth seeded round: Neighbouring pixels that agree on all but the first and last step.")
ASSUME = ["the eager (numpy-backed) result is the oracle for lazy runs, the sequential result for races",
          "schedules are owned by the harness only for the Python-level wrapper; races inside Numba's compiler / prange are sampled with real threads"]

T = pd.date_range("2001-01-01", periods=40, freq="10D")


def _base(case, kind="ndvi"):
    ny, nx, nt = case["shape"]
    r = np.array(case["values"], dtype="float64").reshape(ny, nx, nt)
    if kind == "binary":
        arr = (r > 0).astype("uint8")
    elif kind == "rain":
        # rainfall cubes are non-negative, except: cells equal to the nodata value stay nodata, and a third of the negative cells stay
        # negative (not observations either: C08 - their result is nodata, whatever the neighbouring pixels hold)
        ri = r.astype("int64")
        arr = np.where((r == case.get("nodata", -3000)) | ((r < 0) & (ri % 3 == 0)), r, np.abs(r)).astype(case.get("dtype", "int16"))
    else:
        arr = r.astype(case.get("dtype", "int16"))
    da = xr.DataArray(arr, dims=("y", "x", "time"), coords={"time": T[:nt], "y": np.arange(ny) * 1.0, "x": np.arange(nx) * 2.0},
                      attrs={"nodata": case.get("nodata", -3000)})
    return da


def _ops():
    o = {}
    sr = np.arange(-2.0, 2.1, 0.5)
    o["whits_s"] = ("ndvi", lambda d, c: d.hdc.whit.whits(-3000, s=10.0))
    o["whits_sg"] = ("ndvi", lambda d, c: d.hdc.whit.whits(-3000, sg=xr.DataArray(np.linspace(-1, 2, d.sizes["y"] * d.sizes["x"]).reshape(d.sizes["y"], d.sizes["x"]),
                                                                                   dims=("y", "x"), coords={"y": d.y, "x": d.x})))
    o["whits_p"] = ("ndvi", lambda d, c: d.hdc.whit.whits(-3000, s=3.0, p=0.9))
    o["whitsvc"] = ("ndvi", lambda d, c: d.hdc.whit.whitsvc(-3000, srange=sr))
    o["whitsvc_p"] = ("ndvi", lambda d, c: d.hdc.whit.whitsvc(-3000, srange=sr, p=0.9))
    o["whitsvc_lc"] = ("ndvi16", lambda d, c: d.hdc.whit.whitsvc(-3000, lc=xr.DataArray(np.linspace(0.1, 0.9, d.sizes["y"] * d.sizes["x"]).reshape(d.sizes["y"], d.sizes["x"]),
                                                                                         dims=("y", "x"), coords={"y": d.y, "x": d.x}), p=0.9))
    o["whitswcv"] = ("ndvi", lambda d, c: d.hdc.whit.whitswcv(-3000, srange=sr))
    o["whitswcv_nr"] = ("ndvi", lambda d, c: d.hdc.whit.whitswcv(-3000, robust=False))
    o["whitswcv_p"] = ("ndvi", lambda d, c: d.hdc.whit.whitswcv(-3000, srange=sr, p=0.8))
    o["whitint"] = ("ndvi16", lambda d, c: d.hdc.whit.whitint(*_tmpl(d.sizes["time"])))
    o["spi"] = ("rain", lambda d, c: d.hdc.algo.spi())
    o["spi_win"] = ("rain", lambda d, c: d.hdc.algo.spi(calibration_begin=str(T[1].date()), calibration_end=str(T[d.sizes["time"] - 2].date())))
    o["spi_grp"] = ("rain_grp", lambda d, c: d.hdc.algo.spi(groups=[t % 2 for t in range(d.sizes["time"])]))
    o["lroo"] = ("binary", lambda d, c: d.hdc.algo.lroo())
    o["croo"] = ("binary", lambda d, c: d.hdc.algo.croo())
    o["autocorr"] = ("ac", lambda d, c: d.hdc.algo.autocorr())
    o["mktrend"] = ("mk", lambda d, c: d.hdc.algo.mktrend())
    o["mktrend_nd"] = ("mk_nd", lambda d, c: d.hdc.algo.mktrend())
    o["mean_grp"] = ("any", lambda d, c: d.hdc.algo.mean_grp([t % 3 for t in range(d.sizes["time"])]))
    o["rolling_sum"] = ("roll", lambda d, c: d.hdc.rolling.sum(3))
    # optional dtype arguments must mean the same thing for in-memory and dask-backed input
    o["rolling_sum_f64"] = ("roll", lambda d, c: d.hdc.rolling.sum(3, dtype="float64"))
    o["rolling_sum_i32"] = ("roll", lambda d, c: d.hdc.rolling.sum(2, dtype="int32"))
    o["spi_f32"] = ("rain", lambda d, c: d.hdc.algo.spi(dtype="float32"))
    o["zonal_mean_f64"] = ("zonal", lambda d, c: d.hdc.zonal.mean(_zones(d), [0, 1, 2], dtype="float64", dim_name="zone", name="zm"))
    o["zonal_mean"] = ("zonal", lambda d, c: d.hdc.zonal.mean(_zones(d), [0, 1, 2]))
    o["iteragg_sum"] = ("any", lambda d, c: xr.concat(list(d.hdc.iteragg.sum(3)), "time"))
    o["iteragg_mean"] = ("any", lambda d, c: xr.concat(list(d.hdc.iteragg.mean(2, begin=str(T[d.sizes["time"] - 2].date()))), "time"))
    o["anom_ratio"] = ("any", lambda d, c: d.isel(time=0).hdc.anom.ratio(d.isel(time=1), offset=5))
    return o


DTYPES = {"ndvi": ["int16", "float32", "float64"], "ndvi16": ["int16"], "rain": ["int16", "float32", "float64"], "rain_grp": ["int16", "float32"],
          "ac": ["int16", "int32", "float32", "float64"], "binary": ["uint8"], "mk": ["int16", "float32"], "mk_nd": ["int16", "float32"], "any": ["int16", "int32", "int64", "float32"],
          "roll": ["int16", "int64", "float32"], "zonal": ["int16", "float32", "float64"]}


def _tmpl(nt):
    m = 10 * (nt - 1) + 1
    tm = np.zeros(m)
    tm[::10] = 1
    return (np.arange(m) // 7).astype("int32"), tm


def _zones(d):
    ny, nx = d.sizes["y"], d.sizes["x"]
    z = (np.arange(ny * nx) % 3).astype("int16").reshape(ny, nx)
    return xr.DataArray(z, dims=("y", "x"), attrs={"nodata": -1})


def _input(case):
    kind = _ops()[case["op"]][0]
    base = {"ndvi": "ndvi", "ndvi16": "ndvi", "rain": "rain", "rain_grp": "rain", "binary": "binary", "ac": "ndvi", "mk": "ndvi", "mk_nd": "ndvi", "any": "ndvi",
            "roll": "ndvi", "zonal": "ndvi"}[kind]
    d = _base(case, base)
    if kind == "mk":
        d.attrs.pop("nodata")
    if kind == "ac" and d.dtype.kind == "f":
        # documented encodings: nodata attribute for integer data, NaN for float data
        d = d.where(d != d.attrs.pop("nodata"))
    d = d.transpose("time", "y", "x") if kind == "zonal" else d.transpose(*case.get("dims", ["time", "y", "x"]))
    if case.get("materialize", True):
        # make the requested dimension order the MEMORY order as well (a transposed view keeps the time axis contiguous)
        d = d.copy(data=np.ascontiguousarray(d.values))
    return d


def _run(case, d):
    f = _ops()[case["op"]][1]
    with warnings.catch_warnings():
        warnings.simplefilter("ignore")
        return f(d, case)


def _vars(res):
    if isinstance(res, xr.Dataset):
        return {k: res[k] for k in res.data_vars}
    return {"result": res}


def _same(what, eager, lazy, computed):
    ev, lv, cv = _vars(eager), _vars(lazy), _vars(computed)
    req(set(ev) == set(lv), "%s: variables %s vs %s" % (what, sorted(ev), sorted(lv)), "variables differ")
    for k in ev:
        e, l, c = ev[k], lv[k], cv[k]
        req(e.dims == l.dims, "%s[%s]: dims eager %s, lazy %s" % (what, k, e.dims, l.dims), "dims differ")
        req(l.dtype == e.dtype, "%s[%s]: the lazy result declares dtype %s, the eager result is %s" % (what, k, l.dtype, e.dtype), "declared dtype differs")
        req(c.dtype == e.dtype, "%s[%s]: computed dtype %s, eager %s" % (what, k, c.dtype, e.dtype), "computed dtype differs")
        req(c.shape == e.shape, "%s[%s]: shape %s vs %s" % (what, k, c.shape, e.shape), "shape differs")
        req(set(e.coords) == set(c.coords) and all(np.array_equal(e.coords[q].values, c.coords[q].values) for q in e.coords),
            "%s[%s]: coords differ: %s vs %s" % (what, k, list(e.coords), list(c.coords)), "coords differ")
        req(np.array_equal(e.values, c.values, equal_nan=(e.dtype.kind == "f")), "%s[%s]: values differ between eager and lazy run: %s vs %s" % (
            what, k, fmt(e.values, 16), fmt(c.values, 16)), "values differ")


def _chunks(case, d):
    spec = {}
    for dim, mode in (("y", case["cy"]), ("x", case["cx"])):
        n = d.sizes[dim]
        spec[dim] = 1 if mode == "one" else (n if mode == "single" else tuple([1] + [n - 1]) if n > 1 else n)
    spec["time"] = -1
    return spec


def sub_lazy(case):
    d = _input(case)
    what = "%s(dtype=%s, dims=%s, chunks y=%s x=%s, scheduler=%s/%d)" % (case["op"], d.dtype, "/".join(d.dims), case["cy"], case["cx"], case["sched"], case["workers"])
    eager = call(what + " eager", lambda: _run(case, d))
    lz = d.chunk(_chunks(case, d))
    lazy = call(what + " lazy graph", lambda: _run(case, lz))
    kw = {"scheduler": "synchronous"} if case["sched"] == "synchronous" else {"scheduler": "threads", "num_workers": case["workers"]}
    with dask.config.set(**kw):
        computed = call(what + " compute", lambda: lazy.compute())
    _same(what, eager, lazy, computed)


def sub_time_chunked(case):
    d = _input(case)
    what = "%s with a chunked time axis" % case["op"]
    eager = call(what + " eager", lambda: _run(case, d))
    lz = d.chunk({"time": case["tchunk"], "y": -1, "x": -1})
    try:
        with warnings.catch_warnings():
            warnings.simplefilter("ignore")
            lazy = _ops()[case["op"]][1](lz, case)
            with dask.config.set(scheduler="synchronous"):
                computed = lazy.compute()
    except Exception:  # noqa: BLE001 - refusing a chunked time axis is what the property allows
        return "refused"
    ev, cv = _vars(eager), _vars(computed)
    for k in ev:
        req(cv[k].shape == ev[k].shape and np.array_equal(ev[k].values, cv[k].values, equal_nan=(ev[k].dtype.kind == "f")),
            "%s[%s]: accepted the chunked time axis but computed different values: %s vs %s" % (what, k, fmt(ev[k].values, 12), fmt(cv[k].values, 12)),
            "chunked time changes values")
    return "handled"


def _pairs():
    """Two calls of the same operation on the same cube that differ only in a parameter (for joint evaluation in one graph)."""
    sr1, sr2 = np.arange(-2.0, 2.1, 0.5), np.arange(-1.0, 3.1, 0.5)

    def zones2(d):
        ny, nx = d.sizes["y"], d.sizes["x"]
        return xr.DataArray(((np.arange(ny * nx) // 2) % 3).astype("int16").reshape(ny, nx), dims=("y", "x"), attrs={"nodata": -1})

    return {
        "zonal_named": ("zonal", lambda d: d.hdc.zonal.mean(_zones(d), [0, 1, 2], name="zm"), lambda d: d.hdc.zonal.mean(zones2(d), [0, 1, 2], name="zm")),
        "zonal_dtype": ("zonal", lambda d: d.hdc.zonal.mean(_zones(d), [0, 1, 2], name="zm"), lambda d: d.hdc.zonal.mean(_zones(d), [0, 1, 2], name="zm", dtype="float64")),
        "zonal_unnamed": ("zonal", lambda d: d.hdc.zonal.mean(_zones(d), [0, 1, 2]), lambda d: d.hdc.zonal.mean(zones2(d), [0, 1, 2])),
        "whits": ("ndvi", lambda d: d.hdc.whit.whits(-3000, s=10.0), lambda d: d.hdc.whit.whits(-3000, s=100.0)),
        "whitsvc": ("ndvi", lambda d: d.hdc.whit.whitsvc(-3000, srange=sr1), lambda d: d.hdc.whit.whitsvc(-3000, srange=sr2)),
        "spi": ("rain", lambda d: d.hdc.algo.spi(), lambda d: d.hdc.algo.spi(calibration_begin=str(T[2].date()))),
        "rolling": ("roll", lambda d: d.hdc.rolling.sum(3), lambda d: d.hdc.rolling.sum(4)),
        "mean_grp": ("any", lambda d: d.hdc.algo.mean_grp([t % 3 for t in range(d.sizes["time"])]),
                     lambda d: d.hdc.algo.mean_grp([t % 2 for t in range(d.sizes["time"])])),
        "autocorr": ("ac", lambda d: d.hdc.algo.autocorr(), lambda d: (d + 0).hdc.algo.autocorr()),
    }


def sub_joint(case):
    """Two lazy results built on the same dask cube and evaluated in ONE graph must both equal their eager results."""
    kind, fa, fb = _pairs()[case["pair"]]
    c = dict(case, op={"zonal": "zonal_mean", "ndvi": "whits_s", "rain": "spi", "roll": "rolling_sum", "any": "mean_grp", "ac": "autocorr"}[kind])
    d = _input(c)
    with warnings.catch_warnings():
        warnings.simplefilter("ignore")
        ea, eb = call(case["pair"] + " eager", lambda: (fa(d), fb(d)))
        lz = d.chunk(_chunks(c, d))
        la, lb = call(case["pair"] + " lazy", lambda: (fa(lz), fb(lz)))
        kw = {"scheduler": "synchronous"} if case["sched"] == "synchronous" else {"scheduler": "threads", "num_workers": case["workers"]}
        with dask.config.set(**kw):
            ca, cb = call(case["pair"] + " joint compute", lambda: dask.compute(la, lb))
    _same(case["pair"] + " (first of two results computed in one graph)", ea, la, ca)
    _same(case["pair"] + " (second of two results computed in one graph)", eb, lb, cb)


def sub_pixel_perm(case):
    if case["op"] in ("zonal_mean", "zonal_mean_f64"):
        return
    d = _input(case)
    ny, nx = d.sizes["y"], d.sizes["x"]
    perm = np.array(case["perm"])
    eager = _vars(call(case["op"], lambda: _run(case, d)))
    stacked = d.transpose("y", "x", "time").values.reshape(ny * nx, -1)[perm].reshape(ny, nx, -1)
    d2 = xr.DataArray(stacked, dims=("y", "x", "time"), coords={"time": d.time, "y": d.y, "x": d.x}, attrs=d.attrs).transpose(*d.dims)
    c2 = dict(case)
    res2 = _vars(call(case["op"] + " (pixels permuted)", lambda: _run(c2, d2)))
    per_pixel_params = case["op"] in ("whits_sg", "whitsvc_lc")
    if per_pixel_params:
        return
    for k in eager:
        e, r = eager[k], res2[k]
        other = [q for q in e.dims if q not in ("y", "x")]
        ev = e.transpose("y", "x", *other).values.reshape((ny * nx,) + tuple(e.sizes[q] for q in other))
        rv = r.transpose("y", "x", *other).values.reshape((ny * nx,) + tuple(r.sizes[q] for q in other))
        req(np.array_equal(ev[perm], rv, equal_nan=(ev.dtype.kind == "f")), "%s[%s]: permuting pixels does not permute the results" % (case["op"], k),
            "pixel result depends on neighbours")


LARGE_OPS = ["zonal_mean", "zonal_mean_f64", "autocorr", "lroo", "rolling_sum", "mean_grp", "mktrend_nd", "whits_s", "spi"]


def sub_large(case):
    """Cubes beyond any plausible size gate (> 2^20 cells): the result must not depend on the number of Numba threads, must repeat itself,
    and must equal the result of the same data cut into dask blocks (space-chunked; time-chunked as well for zonal.mean)."""
    import numba

    ny, nx, nt = case["shape"]
    rng = np.random.default_rng(int(case["salt"]))  # a pure function of the case: replayable
    vals = rng.integers(-500, 9000, size=ny * nx * nt)
    vals[rng.integers(0, vals.size, size=vals.size // 50)] = -3000
    c = {"op": case["op"], "shape": [ny, nx, nt], "values": vals, "nodata": -3000, "dtype": case.get("dtype", "int16"), "dims": ["y", "x", "time"], "materialize": True}
    d = _input(c)
    what = "%s on %d cells" % (case["op"], vals.size)
    old = numba.get_num_threads()
    try:
        numba.set_num_threads(1)
        ref = _vars(call(what + " (1 thread)", lambda: _run(c, d)))
        numba.set_num_threads(numba.config.NUMBA_NUM_THREADS)
        runs = [("%d threads, run %d" % (numba.config.NUMBA_NUM_THREADS, k + 1), _vars(call(what, lambda: _run(c, d)))) for k in range(2)]
        if "y" in d.dims:
            chunks = {"y": -1, "x": -1, "time": 1} if case["op"].startswith("zonal") and case.get("tchunk") else {"y": ny // 3 + 1, "x": -1, "time": -1}
            if case["op"].startswith("zonal") and not case.get("tchunk"):
                chunks = None  # zonal.mean reduces over y/x: only the time axis may be cut
            if chunks is not None:
                with warnings.catch_warnings():
                    warnings.simplefilter("ignore")
                    lz = _ops()[case["op"]][1](d.chunk(chunks), c)
                    with dask.config.set(scheduler="threads", num_workers=4):
                        runs.append(("dask blocks %s" % chunks, _vars(call(what + " (dask)", lambda: lz.compute()))))
    finally:
        numba.set_num_threads(old)
    for label, res in runs:
        for k in ref:
            req(res[k].shape == ref[k].shape and np.array_equal(ref[k].values, res[k].values, equal_nan=(ref[k].dtype.kind == "f")),
                "%s[%s]: %s differs from the single-threaded in-memory run at %d of %d elements" % (
                    what, k, label, int((~((ref[k].values == res[k].values) | ((ref[k].values != ref[k].values) & (res[k].values != res[k].values)))).sum()) if res[k].shape == ref[k].shape else -1,
                    ref[k].size), "large cube: result depends on threads / blocks")


def sub_threads(case):
    import numba
    from hdc.algo.ops.ws2doptvplc import ws2doptvplc_tyx

    ny, nx, nt = case["shape"]
    tyx = np.ascontiguousarray(np.array(case["values"], dtype="float64").reshape(ny, nx, nt).transpose(2, 0, 1).astype("int16"))
    for (r, c, series) in case.get("threshold_pixels", []):
        # pixels whose lag-1 correlation is exactly 0.5 (state carried from a neighbour would show as a thread-count dependence)
        if nt >= len(series):
            tyx[:, r % ny, c % nx] = -3000
            tyx[:len(series), r % ny, c % nx] = series
    old = numba.get_num_threads()
    try:
        numba.set_num_threads(1)
        z1, l1 = call("ws2doptvplc_tyx", ws2doptvplc_tyx, tyx, 0.9, -3000)
        for k in case["threads"]:
            numba.set_num_threads(min(k, numba.config.NUMBA_NUM_THREADS))
            for _ in range(case.get("repeat", 2)):
                z, l = call("ws2doptvplc_tyx", ws2doptvplc_tyx, tyx, 0.9, -3000)
                req(np.array_equal(z, z1) and np.array_equal(l, l1), "ws2doptvplc_tyx with %d threads differs from 1 thread (rows=%d)" % (k, ny),
                    "thread count changes result")
    finally:
        numba.set_num_threads(old)


# ---- first-call races -----------------------------------------------------------------------
def _make_lazy():
    compiles = []

    def fake_decorator(f):
        compiles.append(1)

        def inner(*a):
            return ("compiled", f(*a))

        return inner

    @lazycompile(fake_decorator)
    def k(x):
        return x * 2

    return k, compiles


def sub_schedule(case):
    k, compiles = _make_lazy()
    n = case["threads"]
    s = Sched(k.__code__, n, opcode=case.get("opcode", False))
    res, err, used, pre = s.run(lambda i: k(i + 1), list(case["schedule"]))
    req(all(e is None for e in err), "racing first call raised under schedule %s: %s" % (case["schedule"], err), "race raised")
    req(res == [("compiled", 2 * (i + 1)) for i in range(n)], "racing first call returned %s under schedule %s" % (res, case["schedule"]), "race wrong result")
    req(k(21) == ("compiled", 42), "call after the race returns %r" % (k(21),), "race wrong result")
    return len(compiles), pre


RACE_SNIPPET = r"""
import sys, json, threading, warnings
import numpy as np
warnings.simplefilter("ignore")
sys.setswitchinterval(1e-5)
kern, n, skews = sys.argv[1], int(sys.argv[2]), json.loads(sys.argv[3])
from hdc.algo import ops
from hdc.algo.ops import stats
rng = np.random.RandomState(7)
def inputs(i):
    y = np.round(3000 + 2000 * np.sin(np.arange(30) / 3.0 + i) + rng.normal(0, 200, 30))
    return y
def run(i, y):
    if kern == "ws2dgu": return ops.ws2dgu(y, 10.0, -1.0).tolist()
    if kern == "lroo": return int(ops.lroo((y > 3000).astype("uint8")))
    if kern == "rolling_sum": return stats.rolling_sum(y.astype("int16"), 3, -1).tolist()
    if kern == "autocorr": return ops.autocorr(y.reshape(1, 1, -1).astype("int16"), -1).tolist()
    if kern == "ws2doptv": return [v.tolist() for v in ops.ws2doptv(y, -1.0, np.arange(-2.0, 2.0))]
ys = [inputs(i) for i in range(n)]
bar = threading.Barrier(n)
res, err = [None] * n, [None] * n
def body(i):
    import time
    bar.wait()
    time.sleep(skews[i % len(skews)] * 1e-4)
    try: res[i] = run(i, ys[i])
    except BaseException as e: err[i] = repr(e)
ts = [threading.Thread(target=body, args=(i,)) for i in range(n)]
[t.start() for t in ts]; [t.join() for t in ts]
seq = [run(i, ys[i]) for i in range(n)]
print(json.dumps({"err": err, "same": res == seq}))
"""


def _start_race(case):
    return subprocess.Popen([sys.executable, "-W", "ignore", "-c", RACE_SNIPPET, case["kernel"], str(case["threads"]), json.dumps(case["skews"])],
                            stdout=subprocess.PIPE, stderr=subprocess.PIPE, text=True, env=dict(os.environ))


def sub_real_race(case, proc=None):
    proc = proc or _start_race(case)
    stdout, stderr = proc.communicate(timeout=900)

    class p:  # noqa: N801
        returncode = proc.returncode
    p.stdout, p.stderr = stdout, stderr
    line = [l for l in p.stdout.splitlines() if l.startswith("{")]
    req(p.returncode == 0 and line, "race subprocess failed: rc=%s %s" % (p.returncode, p.stderr[-400:]), "race subprocess crashed")
    out = json.loads(line[-1])
    req(all(e is None for e in out["err"]), "first use of %s from %d threads raised: %s" % (case["kernel"], case["threads"], out["err"]), "race raised")
    req(out["same"], "first use of %s from %d threads returned results that differ from the sequential run" % (case["kernel"], case["threads"]),
        "race wrong result")


SUBS = {"large": sub_large, "joint": sub_joint, "lazy": sub_lazy, "time_chunked": sub_time_chunked, "pixel_perm": sub_pixel_perm, "threads": sub_threads, "schedule": sub_schedule,
        "real_race": sub_real_race}


@st.composite
def cube(draw, ops=None):
    op = draw(st.sampled_from(ops or sorted(_ops())))
    kind = _ops()[op][0]
    ny, nx = draw(st.integers(2, 4)), draw(st.integers(2, 5))
    nt = draw(st.integers(6, 24))
    vals = draw(st.lists(st.integers(-500, 9000), min_size=ny * nx * nt, max_size=ny * nx * nt))
    nnd = draw(st.integers(0, 6))
    for q in draw(st.lists(st.integers(0, ny * nx * nt - 1), min_size=nnd, max_size=nnd, unique=True)):
        vals[q] = -3000
    if kind in ("rain", "rain_grp") or draw(st.booleans()):
        # neighbouring pixels that agree on all but the first and last step (identical inside any inner window, different outside):
        # whatever a kernel carries over from the pixel it processed before shows up here
        for k in draw(st.lists(st.integers(0, ny * nx - 2), min_size=1, max_size=3, unique=True)):
            vals[(k + 1) * nt:(k + 2) * nt] = vals[k * nt:(k + 1) * nt]
            vals[(k + 1) * nt] = draw(st.sampled_from([0, -3000, 17, 8000]))
            vals[(k + 2) * nt - 1] = draw(st.sampled_from([0, -3000, 23, 7000]))
    case = {"op": op, "shape": [ny, nx, nt], "values": vals, "dtype": draw(st.sampled_from(DTYPES[kind])), "nodata": -3000,
            "dims": list(draw(st.permutations(["time", "y", "x"]))), "cy": draw(st.sampled_from(["one", "ragged", "single"])),
            "cx": draw(st.sampled_from(["one", "ragged", "single"])), "sched": draw(st.sampled_from(["synchronous", "threads", "threads"])),
            "workers": draw(st.sampled_from([1, 2, 3, 8, 16])), "tchunk": draw(st.sampled_from([1, 2, 5])),
            "perm": list(draw(st.permutations(list(range(ny * nx))))), "materialize": draw(st.booleans())}
    if kind == "rain":
        case["nodata"] = -3000
    return case


def run(ctx):
    rec = ctx.rec
    races = [("lroo", 8), ("ws2dgu", 4), ("rolling_sum", 16)] if ctx.quick else \
        [(k, n) for k in ("lroo", "ws2dgu", "rolling_sum", "autocorr", "ws2doptv") for n in (2, 3, 4, 8, 16)]
    started = []
    for i, (kern, n) in enumerate(races[:6]):
        case = {"kernel": kern, "threads": n, "skews": [0, (ctx.seed + i) % 5, 1, 3]}
        started.append((case, _start_race(case)))
    pending = races[6:]

    def f_lazy(case):
        nblocks = (1 if case["cy"] == "single" else 2) * (1 if case["cx"] == "single" else 2)
        rec.case("lazy", case, nontrivial=nblocks > 1, cls=["op:" + case["op"], "sched:%s/%d" % (case["sched"], case["workers"]), "dtype:" + case["dtype"],
                                                            "dims:" + "/".join(case["dims"]), "chunks:%s/%s" % (case["cy"], case["cx"]),
                                                            "memory_order=dims" if case.get("materialize", True) else "transposed_view"])
        sub_lazy(case)

    # every operation at least a few times: one Hypothesis run per operation keeps failures of different ops apart
    per_op = ctx.n(7, 60)
    for op in sorted(_ops()):
        ctx.given("lazy", cube([op]), per_op, fn=f_lazy, shrink=False)
        # the widest dtype of the operation (no cast, hence no contiguous temporary) with the dimension order as memory order
        widest = DTYPES[_ops()[op][0]][-1]
        ctx.given("lazy", cube([op]).map(lambda c, widest=widest: dict(c, dtype=widest, materialize=True)), ctx.n(6, 20), fn=f_lazy, shrink=False)

    def f_j(case):
        rec.case("joint", case, nontrivial=True, cls=["pair:" + case["pair"], "sched:" + case["sched"]])
        sub_joint(case)

    for pair in sorted(_pairs()):
        ctx.given("joint", cube(["whits_s"]).map(lambda c, pair=pair: dict(c, pair=pair, dtype="int16" if pair != "autocorr" else c["dtype"] if c["dtype"] in ("int16", "float32", "float64") else "int16")),
                  ctx.n(3, 30), fn=f_j, shrink=False)

    def f_tc(case):
        how = sub_time_chunked(case)
        rec.case("time_chunked", case, nontrivial=True, cls=["op:" + case["op"], str(how)])

    for op in sorted(_ops()):
        if op not in ("anom_ratio",):
            ctx.given("time_chunked", cube([op]), ctx.n(3, 25), fn=f_tc, shrink=False)

    def f_pp(case):
        rec.case("pixel_perm", case, nontrivial=case["perm"] != sorted(case["perm"]), cls=["op:" + case["op"]])
        sub_pixel_perm(case)

    for op in sorted(_ops()):
        if op not in ("zonal_mean", "zonal_mean_f64", "whits_sg", "whitsvc_lc"):
            ctx.given("pixel_perm", cube([op]), ctx.n(6, 25), fn=f_pp, shrink=False)

    # cubes beyond any size gate: thread count, repetition, dask blocks
    for i, op in enumerate(LARGE_OPS):
        if i % ctx.n(3, 1) != ctx.seed % ctx.n(3, 1) and op not in ("zonal_mean", "zonal_mean_f64"):
            continue  # quick tier: both zonal means every time, a third of the pixel operations per seed
        shape = [200, 210, 26] if op.startswith("zonal") else [512, 520, 5] if op != "spi" else [160, 170, 40]
        case = {"op": op, "shape": shape, "salt": ctx.seed * 101 + i, "tchunk": bool((ctx.seed + i) % 2) or op == "zonal_mean"}
        rec.case("large", case, nontrivial=True, cls="large:" + op)
        if not ctx.run_case("large", case):
            return

    # thread counts of the prange kernel
    def f_th(case):
        rec.case("threads", case, nontrivial=True, cls="rows=%d" % case["shape"][0])
        sub_threads(case)

    from harness import gens as _g
    thp = st.lists(st.tuples(st.integers(0, 39), st.integers(0, 5), _g.exact_half_series()), max_size=10)
    def _th(ny, nx, nt, v, ks, tp):
        if tp:
            nt = 6  # the exact-half templates have six steps; trailing gaps would move their correlation off the threshold
            v = [abs(q) % 3000 + 200 * (i % 6) * (1 + i // 6 % 3) for i, q in enumerate(v)]  # mostly rising pixels (lag-1 > 0.5) around them
        return {"shape": [ny, nx, nt], "values": (v * (ny * nx * nt // len(v) + 1))[:ny * nx * nt], "threads": ks, "repeat": 2,
                "threshold_pixels": [list(t) for t in tp]}

    th = st.builds(_th,
                   st.integers(1, 40), st.integers(1, 6), st.integers(6, 30), st.lists(st.integers(-3000, 9000), min_size=50, max_size=400),
                   st.lists(st.integers(2, 16), min_size=2, max_size=5, unique=True), thp)
    ctx.given("threads", th, ctx.n(25, 300), fn=f_th, shrink=False)

    # schedules on the wrapper: enumerate all schedules with <= 3 switches (line level)
    outcomes = {}
    for n in (2, 3):
        steps = 8
        for sw in range(0, ctx.n(3, 4)):
            for cut in itertools.combinations(range(1, steps * n), sw):
                for order in itertools.permutations(range(n), min(n, sw + 1)):
                    sched, cur, oi = [], order[0], 0
                    for pos in range(steps * n):
                        if pos in cut:
                            oi = (oi + 1) % len(order)
                            cur = order[oi]
                        sched.append(cur)
                    case = {"threads": n, "schedule": sched, "opcode": False}
                    try:
                        nc, pre = sub_schedule(case)
                    except Violation:
                        ctx.run_case("schedule", case)
                        break
                    outcomes[nc] = outcomes.get(nc, 0) + 1
                    rec.case("schedule", case if sw == 2 and len(outcomes) < 3 else None, nontrivial=pre >= 1, cls="line_level_threads=%d" % n,
                             key=("s", n, tuple(sched)))
    rec.exhaustive_parts.append("lazycompile wrapper: all line-level schedules with <= %d switches for 2 and 3 threads (stub compiler)" % ctx.n(2, 3))
    rec.extra["compile_counts_seen"] = {str(k): v for k, v in outcomes.items()}

    def f_s(case):
        nc, pre = sub_schedule(case)
        rec.case("schedule", case, nontrivial=pre >= 1, cls=["opcode_level_threads=%d" % case["threads"], "compiles=%d" % nc])

    sc = st.integers(2, 4).flatmap(lambda n: st.builds(lambda s: {"threads": n, "schedule": s, "opcode": True},
                                                        st.lists(st.integers(0, n - 1), min_size=4, max_size=60)))
    ctx.given("schedule", sc, ctx.n(400, 6000), fn=f_s)

    # real races in fresh processes (started at the beginning of run(), collected here)
    for i, (kern, n) in enumerate(pending):
        case = {"kernel": kern, "threads": n, "skews": [0, (ctx.seed + i) % 5, 1, 3]}
        started.append((case, _start_race(case)))
        if len(started) % 6 == 0:
            for c_, p_ in started[-6:]:
                p_.wait()
    for case, proc in started:
        rec.case("real_race", case, nontrivial=True, cls="kernel:" + case["kernel"])
        try:
            sub_real_race(case, proc)
        except Violation as e:
            ctx.report("real_race", case, e)
