"""C03 - fixed-lambda smoothers return the rounded PLS / expectile curve."""
from __future__ import annotations

import sys
import numpy as np
import pandas as pd
import xarray as xr
from hypothesis import strategies as st

import hdc.algo  # noqa: F401
from harness import gens, refs, smooth
from harness.util import call, req, fmt

PID = "C03"
LEVEL = "exploration"
RULE = ("Kernel level: Hypothesis draws series (9 classes, n 4..400) x gap pattern x lambda=10^U(-3,5) (plus lambda=0) x p "
        "for ws2dgu/ws2dpgu; oracle = rint of an independent LAPACK solve (gu) or of an explicit <=10-pass IRLS model from "
        "the zero curve (pgu), under the rounding-tie rule; fragile envelope decisions excluded and counted. Accessor level: "
        "cubes of 1..3 x 1..3 pixels, time at any axis position, int16/float32/float64 data, s= constant or sg= per-pixel "
        "grid with -inf cells, p or none; every pixel must equal the kernel-level oracle with lambda=10**sg and the result "
        "dims are the non-time dims followed by time. Non-trivial: not (no gaps and lambda in {10, 10^-0.5} and n=5); "
        "distinct by content hash. "
        " Added after the fourth seeded round: Float series carry valid cells a hair away from the nodata value (one ulp .. 0.5). "
        " Added after the fifth seeded round: Accessor cases carry an unrelated nodata attribute; generic 'history' sub-check for whits. "
        " Added after the sixth seeded round: missing cells of float series / cubes stored as NaN or +-inf next to a finite nodata value (the kernel must hand its input buffer back unchanged). "
        " Added after the seventh seeded round: sub-check 'sg_reuse': one DataArray and one sgrid object across several whits(sg=) calls, the sgrid overwritten in place in between (oracle: brand-new objects).")
ASSUME = ["LAPACK banded Cholesky as reference solver", "tie rule / fragility rule of DESIGN 2.5 / 2.7"]


def _oracle(what, out, y, valid, lam, p, rec=None):
    """Compare one pixel. Returns a discard reason or None."""
    y = np.asarray(y, dtype=float)
    valid = np.asarray(valid, dtype=bool)
    if lam == 0.0 or valid.sum() < 2:
        fin = np.isfinite(y)  # what a NaN / inf cell is cast to is not defined; every finite cell must come back as it went in
        req(np.array_equal(np.asarray(out)[fin], y[fin].astype("int16")),
            "%s: lambda=%r, %d valid cells must return the input unchanged: in %s out %s" % (what, lam, int(valid.sum()), fmt(y), fmt(out)),
            what.split(":")[0] + " passthrough")
        return None
    variant = "pgu" if p is not None else "gu"
    z, margin = smooth.reference_curve(variant, y, valid, lam, {"p": p})
    if np.max(np.abs(z)) >= 32766:
        return "curve_leaves_int16"
    tau = refs.tie_tau(z, smooth.kappa(y.size, lam, valid, p))
    if tau >= 0.25:
        return "unresolvable_conditioning"
    if margin <= 10 * tau:
        return "fragile_envelope_decision"
    smooth.compare_to_curve("%s (n=%d, %d valid, lambda=%.6g, p=%r)" % (what, y.size, int(valid.sum()), lam, p), out, z, tau, rec)
    return None


def sub_kernel(case, rec=None):
    y = np.array(case["y"], dtype="float64")
    valid = np.array(case["valid"], dtype=bool)
    nd = float(case["nodata"])
    yy = y.copy()
    yy[~valid] = nd
    for i, d in case.get("near", []):
        # a VALID cell whose value is close to, but not equal to, the nodata value
        yy[i] = np.nextafter(nd, np.inf if d > 0 else -np.inf) if abs(d) == 1 else nd + d
    for i, kind in case.get("nonfinite", []):
        # a MISSING cell stored as NaN / +-inf instead of the nodata value (C02: such cells carry no weight either)
        yy[i] = {"nan": np.nan, "+inf": np.inf, "-inf": -np.inf}[kind]
    lam = 0.0 if case.get("lam0") else 10.0 ** case["loglam"]
    p = case.get("p")
    out, _ = smooth.run_variant("pgu" if p is not None else "gu", yy, nd, {"lam": lam, "p": p})
    req(out.dtype == np.int16 and out.shape == y.shape, "kernel output %s %s" % (out.dtype, out.shape), "kernel output type")
    return _oracle("ws2dpgu" if p is not None else "ws2dgu", out, yy, valid, lam, p, rec)


def sub_accessor(case, rec=None):
    ny, nx = case["shape"]
    pix = case["pixels"]          # ny*nx series
    vmask = case["valid"]
    nt = len(pix[0])
    nd = case["nodata"]
    arr = np.array(pix, dtype="float64")
    vm = np.array(vmask, dtype=bool)
    arr[~vm] = nd
    for k, t, d in case.get("near", []):
        arr[k, t] = nd + d  # valid float cell next to the nodata value (d is exact in float32 at this magnitude)
    for k, t in case.get("nan_cells", []):
        arr[k, t] = np.nan  # missing cell of a float cube stored as NaN although a finite nodata value is passed
    cube = arr.reshape(ny, nx, nt).astype(case["dtype"])
    da = xr.DataArray(cube, dims=("y", "x", "time"),
                      coords={"time": pd.date_range("2010-01-01", periods=nt, freq="10D"), "y": np.arange(ny), "x": np.arange(nx) * 2},
                      name=case.get("name"))
    if case.get("attr_nodata") is not None:
        # the array may carry a nodata attribute of its own: the nodata ARGUMENT is what whits() is documented to use
        da.attrs["nodata"] = case["attr_nodata"]
    da = da.transpose(*case["dims"])
    p = case.get("p")
    kw = {} if p is None else {"p": p}
    if case["mode"] == "s":
        lams = np.full((ny, nx), float(case["s"]))
        res = call("whits(s=)", lambda: da.hdc.whit.whits(nd, s=case["s"], **kw))
    else:
        sgv = np.array([float(v) for v in case["sg"]], dtype="float64").reshape(ny, nx)
        sg = xr.DataArray(sgv, dims=("y", "x"), coords={"y": np.arange(ny), "x": np.arange(nx) * 2})
        if case.get("sg_transposed"):
            sg = sg.transpose("x", "y")
        with np.errstate(all="ignore"):
            lams = 10.0 ** sgv
        res = call("whits(sg=)", lambda: da.hdc.whit.whits(nd, sg=sg, **kw))
    req(isinstance(res, xr.DataArray), "whits returns %s" % type(res).__name__, "whits type")
    want_dims = tuple(d for d in case["dims"] if d != "time") + ("time",)
    req(res.dims == want_dims, "whits result dims %s, expected %s" % (res.dims, want_dims), "whits dims")
    req(res.dtype == np.int16, "whits result dtype %s" % res.dtype, "whits dtype")
    req(np.array_equal(res["time"].values, da["time"].values), "whits changed the time coordinate", "whits coords")
    r = res.transpose("y", "x", "time").values
    why = None
    for i in range(ny):
        for j in range(nx):
            k = i * nx + j
            w = _oracle("whits pixel (%d,%d) dims=%s" % (i, j, "/".join(case["dims"])), r[i, j], cube[i, j].astype("float64"),
                        vm[k], float(lams[i, j]), p, rec)
            why = why or w
    return why


def sub_sg_reuse(case):
    """ONE DataArray and ONE sgrid object across several whits(sg=...) calls; the sgrid's values are overwritten in place between the
    calls (a tuning loop): every call must use the sgrid as it is at that moment - oracle: brand-new objects with the same content."""
    ny, nx = case["shape"]
    nt = len(case["pixels"][0])
    cube = np.array(case["pixels"], dtype="float64").reshape(ny, nx, nt).astype(case["dtype"])
    coords = {"time": pd.date_range("2010-01-01", periods=nt, freq="10D"), "y": np.arange(ny), "x": np.arange(nx) * 2}
    da = xr.DataArray(cube, dims=("y", "x", "time"), coords=coords).transpose(*case["dims"])
    sg = xr.DataArray(np.zeros((ny, nx)), dims=("y", "x"), coords={"y": coords["y"], "x": coords["x"]})
    p = case.get("p")
    kw = {} if p is None else {"p": p}
    for step, grid in enumerate(case["grids"]):
        vals = np.array([float(v) for v in grid], dtype="float64").reshape(ny, nx)
        sg.values[...] = vals  # in place: the same object as in the previous call
        got = call("whits(sg=) call %d" % (step + 1), lambda: da.hdc.whit.whits(case["nodata"], sg=sg, **kw))
        da2 = xr.DataArray(cube.copy(), dims=("y", "x", "time"), coords=coords).transpose(*case["dims"])
        sg2 = xr.DataArray(vals.copy(), dims=("y", "x"), coords={"y": coords["y"], "x": coords["x"]})
        want = call("whits(sg=) on brand-new objects", lambda: da2.hdc.whit.whits(case["nodata"], sg=sg2, **kw))
        req(got.dims == want.dims and np.array_equal(got.values, want.values),
            "whits(sg=) call %d on the same DataArray with the same sgrid object overwritten in place (now %s) returns %s; brand-new objects with the same content give %s" % (
                step + 1, fmt(vals.ravel(), 6), fmt(got.values.ravel(), 12), fmt(want.values.ravel(), 12)), "whits uses a stale sgrid")


SUBS = {"kernel": sub_kernel, "accessor": sub_accessor, "sg_reuse": sub_sg_reuse}


@st.composite
def kernel_case(draw, nmax):
    s = draw(gens.series(nmin=4, nmax=nmax))
    n = len(s["y"])
    g = draw(gens.gap_mask(n, min_valid=0 if draw(st.integers(0, 19)) == 0 else 2))
    nd = gens.placeholder_for(s["y"], g["valid"], draw(st.sampled_from(gens.PLACEHOLDER_KINDS)))
    case = {"y": s["y"], "valid": g["valid"], "nodata": nd, "ycls": s["cls"], "gcls": g["gcls"]}
    if draw(st.integers(0, 24)) == 0:
        case["lam0"] = True
    else:
        case["loglam"] = draw(gens.loglam(-3.0, 5.0))
    if draw(st.booleans()):
        case["p"] = draw(gens.pvals)
    vi = [i for i in range(n) if g["valid"][i]]
    if vi and draw(st.integers(0, 5)) == 0:
        # float rasters: valid cells a hair away from the nodata value are ordinary observations (+-1 stands for one ulp)
        idx = draw(st.lists(st.sampled_from(vi), min_size=1, max_size=min(3, len(vi)), unique=True))
        case["near"] = [[i, draw(st.sampled_from([1, -1, 1e-9, -1e-9, 0.004, -0.01, 0.0625, 0.25, -0.5]))] for i in idx]
    mi = [i for i in range(n) if not g["valid"][i]]
    if mi and draw(st.integers(0, 3)) == 0:
        # float rasters: some or all of the missing cells are stored as NaN / +-inf, next to an unrelated finite nodata value
        some = draw(st.booleans())
        case["nonfinite"] = [[i, draw(st.sampled_from(["nan", "nan", "+inf", "-inf"]))] for i in mi if not some or draw(st.booleans())]
    return case


@st.composite
def accessor_case(draw):
    ny, nx = draw(st.integers(1, 3)), draw(st.integers(1, 3))
    nt = draw(st.integers(4, 40))
    dtype = draw(st.sampled_from(["int16", "float32", "float64"]))
    pix, val = [], []
    for _ in range(ny * nx):
        s = draw(gens.series(n=nt))
        g = draw(gens.gap_mask(nt, min_valid=0 if draw(st.integers(0, 9)) == 0 else 2))
        pix.append(s["y"])
        val.append(g["valid"])
    allv = [v for pxs, vs in zip(pix, val) for v, ok in zip(pxs, vs) if ok]
    nd = draw(st.sampled_from([-32768, -11000, 11000, 32767] + ([0] if 0 not in allv else [])))
    case = {"shape": [ny, nx], "pixels": pix, "valid": val, "nodata": nd, "dtype": dtype,
            "dims": list(draw(st.permutations(["time", "y", "x"]))), "name": draw(st.sampled_from([None, "ndvi"]))}
    if draw(st.booleans()):
        case["mode"] = "s"
        case["s"] = draw(st.one_of(st.sampled_from([10.0, 1.0, 0.001, 1e5]), gens.loglam(-3.0, 5.0).map(lambda e: 10.0 ** e)))
    else:
        case["mode"] = "sg"
        case["sg"] = draw(st.lists(st.one_of(gens.loglam(-3.0, 5.0), st.just("-Infinity")), min_size=ny * nx, max_size=ny * nx))
        case["sg_transposed"] = draw(st.booleans())
    if draw(st.booleans()):
        case["p"] = draw(gens.pvals)
    if draw(st.booleans()):
        case["attr_nodata"] = draw(st.sampled_from([-9999, 255, 0, allv[0] if allv else 7]))
    cells = [(k, t) for k in range(ny * nx) for t in range(nt) if val[k][t]]
    if dtype != "int16" and cells and draw(st.integers(0, 3)) == 0:
        pick = draw(st.lists(st.sampled_from(cells), min_size=1, max_size=min(3, len(cells)), unique=True))
        case["near"] = [[k, t, draw(st.sampled_from([0.0625, -0.0625, 0.25, -0.5, 0.015625]))] for k, t in pick]
    miss = [(k, t) for k in range(ny * nx) for t in range(nt) if not val[k][t]]
    if dtype != "int16" and miss and draw(st.integers(0, 2)) == 0:
        case["nan_cells"] = [[k, t] for k, t in miss if draw(st.booleans())]
    return case


def _trivial_kernel(case):
    lam = None if case.get("lam0") else 10.0 ** case["loglam"]
    return all(case["valid"]) and len(case["y"]) == 5 and lam is not None and (abs(lam - 10) < 1e-12 or abs(lam - 10 ** -0.5) < 1e-12)


def run(ctx):
    rec = ctx.rec

    def f_kernel(case):
        why = sub_kernel(case, rec)
        if why:
            rec.discard("kernel", why)
        rec.case("kernel", case, nontrivial=(not _trivial_kernel(case)) and why is None,
                 cls=["pgu" if "p" in case else "gu", "gap:" + case["gcls"], "y:" + case["ycls"],
                      "lambda=0" if case.get("lam0") else "lambda>0"] + (["near_nodata_valid_cell"] if case.get("near") else []) + (["missing_as_nan_or_inf"] if case.get("nonfinite") else []))

    ctx.given("kernel", kernel_case(ctx.n(200, 400)), ctx.n(1200, 15000), fn=f_kernel)

    def f_acc(case):
        why = sub_accessor(case, rec)
        if why:
            rec.discard("accessor", why)
        rec.case("accessor", case, nontrivial=True,
                 cls=["mode:" + case["mode"], "dtype:" + case["dtype"], "dims:" + "/".join(case["dims"]),
                      "p" if "p" in case else "nop"] + (["near_nodata_valid_cell"] if case.get("near") else []) + (["missing_as_nan"] if case.get("nan_cells") else []) + (["attr_nodata"] if case.get("attr_nodata") is not None else []) + (["sg:-inf"] if case["mode"] == "sg" and "-Infinity" in [str(v) for v in case["sg"]] else []))

    ctx.given("accessor", accessor_case(), ctx.n(250, 3000), fn=f_acc)

    @st.composite
    def reuse_case(draw):
        c = draw(accessor_case())
        n = c["shape"][0] * c["shape"][1]
        arr = [[v if ok else c["nodata"] for v, ok in zip(px, vm)] for px, vm in zip(c["pixels"], c["valid"])]
        grids = draw(st.lists(st.lists(st.one_of(gens.loglam(-3.0, 5.0), st.just("-Infinity")), min_size=n, max_size=n), min_size=2, max_size=4))
        return {"shape": c["shape"], "pixels": arr, "dtype": c["dtype"], "dims": c["dims"], "nodata": c["nodata"], "grids": grids, **({"p": c["p"]} if "p" in c else {})}

    def f_reuse(case):
        rec.case("sg_reuse", case, nontrivial=any(g != case["grids"][0] for g in case["grids"][1:]), cls=["calls=%d" % len(case["grids"]), "dtype:" + case["dtype"]])
        sub_sg_reuse(case)

    ctx.given("sg_reuse", reuse_case(), ctx.n(80, 1000), fn=f_reuse)


from harness import history as _history  # noqa: E402

_history.install(sys.modules[__name__], {"whits": _history.q_whits}, {"whits": _history.WHITS_ARGS}, n=(120, 1500), dtypes=("int16", "float64"),
                 attr_values=(-3000, 0, -9999), cells=_history.NDVI_CELLS)
