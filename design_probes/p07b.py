import numpy as np, warnings, math
warnings.simplefilter('ignore')
exec(open('p07.py').read().split("rng=np.random.default_rng(3)")[0])
from hdc.algo.ops.stats import gammafit
rng=np.random.default_rng(3)
worst=[]
for k in range(3000):
    n=int(rng.integers(3,200)); shape=10**rng.uniform(-1.3,2.7); scale=10**rng.uniform(-1,4)
    x=rng.gamma(shape,scale,n).astype('float32')
    nd=-9999.
    c0=0;c1=n
    pos=np.unique(x[x>0]); 
    if pos.size<2: continue
    r,par=ref_spi(x,nd,c0,c1)
    o=gammastd_yxt(x.reshape(1,1,-1),nd,c0,c1)[0,0].astype(float)
    if par is None: continue
    ok=np.abs(r)<=7000
    d=np.abs(o[ok]-np.rint(r[ok]))
    if d.size and d.max()>3:
        a32,b32=gammafit(x)
        worst.append((d.max(),n,shape,scale,par[0],a32,par[1],b32))
worst.sort(reverse=True)
for w in worst[:10]: print(w)
print(len(worst))
