import numpy as np, warnings, time
warnings.simplefilter('ignore')
from scipy.linalg import solveh_banded
from hdc.algo.ops import tinterpolate
def solve(y,lam,w):
    n=len(y); ab=np.zeros((3,n))
    d=np.full(n,6.0); d[[0,-1]]=1; d[[1,-2]]=5
    ab[2]=w+lam*d
    s1=np.full(n,-4.0); s1[1]=-2; s1[-1]=-2; s1[0]=0
    ab[1]=lam*s1
    s2=np.full(n,1.0); s2[:2]=0
    ab[0]=lam*s2
    return solveh_banded(ab, w*y)
rng=np.random.default_rng(0); bad=0; tot=0; ties=0
for k in range(300):
    nobs=int(rng.integers(5,400)); 
    mode=rng.choice(['reg','irr'])
    if mode=='reg': sp=np.full(nobs, rng.choice([5,8,10,16]))
    else: sp=rng.integers(1,20,nobs)
    lead=int(rng.integers(0,10)); tail=int(rng.integers(0,10))
    pos=lead+np.cumsum(sp)-sp[0]
    nd=pos[-1]+1+tail
    if nd>4500: continue
    tmpl=np.zeros(nd); tmpl[pos]=1
    per=int(rng.choice([5,10,30])); lab=(np.arange(nd)//per).astype('int32')
    kind=rng.choice(['rand','const','lin'])
    if kind=='rand': x=np.clip(np.round(3000+2000*np.sin(pos/40.)+rng.normal(0,200,nobs)),-10000,10000)
    elif kind=='const': x=np.full(nobs, rng.integers(-10000,10000))
    else:
        a=rng.integers(-2,3); b=rng.integers(-1000,1000); x=a*pos+b
        if np.abs(x).max()>10000: continue
    x=x.astype('int16')
    t0=tmpl.copy(); l0=lab.copy()
    out=tinterpolate(x,tmpl,lab,np.zeros(len(np.unique(lab)),'uint8'))
    assert np.array_equal(t0,tmpl) and np.array_equal(l0,lab)
    temp=np.zeros(nd); temp[pos]=x
    z=solve(temp,1e-5,tmpl)
    ref=np.array([z[lab==u].mean() for u in np.unique(lab)])
    if np.abs(ref).max()>32000: continue
    d=np.abs(out-np.rint(ref)); tie=np.abs(np.abs(ref-np.floor(ref))-0.5)<1e-4
    tot+=1; ties+=tie.any()
    if (d[~tie]>0).any() or (d>1).any():
        bad+=1; i=np.argmax(d); print(kind,mode,nobs,nd,per,'maxd',d.max(),ref[i],out[i])
print(tot,bad,ties)
