import numpy as np, warnings
warnings.simplefilter('ignore')
from hdc.algo.ops import ws2dwcv, ws2dwcvp
sr = np.arange(-1.8,4.2,0.2)
n=20
cases = {
 'const': np.full(n, 500.),
 'linear': 100+7.*np.arange(n),
 'flat+spikes': np.where(np.arange(n)%7==3, 900., 500.),
 'noisy': 500+np.round(100*np.sin(np.arange(n)/3.)+np.random.default_rng(1).normal(0,20,n)),
}
for k,y in cases.items():
    for rob in (False, True):
        try:
            print(k, rob, *ws2dwcv(y, -1., sr, rob))
        except Exception as e: print(k, rob, 'EXC', repr(e)[:100])
        try:
            print(k, rob, 'p', *ws2dwcvp(y, -1., 0.9, sr, rob))
        except Exception as e: print(k, rob, 'p EXC', repr(e)[:100])
