import types, numpy as np, random, time
from fractions import Fraction as F
from hdc.algo.ops.ws2d import ws2d
pf = ws2d.py_func
def fzeros(n): 
    a = np.empty(n, dtype=object); a[:] = F(0); return a
g = dict(pf.__globals__); g['zeros'] = fzeros
exact = types.FunctionType(pf.__code__, g)

def dense_exact(y, lam, w):
    # solve (W + lam D'D) z = W y exactly with Fractions via gaussian elimination
    n = len(y)
    A = [[F(0)]*n for _ in range(n)]
    for i in range(n): A[i][i] += w[i]
    for i in range(n-2):
        d = [(i,1),(i+1,-2),(i+2,1)]
        for a,ca in d:
            for b,cb in d:
                A[a][b] += lam*ca*cb
    b = [w[i]*y[i] for i in range(n)]
    # gauss
    for i in range(n):
        p = A[i][i]
        assert p != 0
        for j in range(i+1, min(n, i+3)):
            f = A[j][i]/p
            if f:
                for k in range(i, min(n,i+3)):
                    A[j][k] -= f*A[i][k]
                b[j] -= f*b[i]
    z=[F(0)]*n
    for i in range(n-1,-1,-1):
        s=b[i]
        for k in range(i+1,min(n,i+3)): s-=A[i][k]*z[k]
        z[i]=s/A[i][i]
    return z

rng = random.Random(1)
worst = 0; worstcase=None
t0=time.time()
for it in range(400):
    n = rng.choice([4,5,6,7,8,10,20,50,100,200])
    y = [rng.randint(-10000,10000) for _ in range(n)]
    mode = rng.choice(['all','rand','edge','fewvalid','biggap'])
    if mode=='all': w=[1]*n
    elif mode=='rand': w=[rng.choice([0,1]) for _ in range(n)]
    elif mode=='edge':
        a=rng.randint(0,n//2); b=rng.randint(0,n//2-1 if n//2-1>0 else 0); w=[0]*a+[1]*(n-a-b)+[0]*b
    elif mode=='fewvalid':
        w=[0]*n
        for i in rng.sample(range(n),2): w[i]=1
    else:
        w=[1]*n; a=rng.randint(0,n-1); b=rng.randint(a,n-1)
        for i in range(a,b): w[i]=0
    if sum(1 for x in w if x>0)<2: continue
    if rng.random()<0.3: w=[x*rng.choice([0.1,0.5,0.9,1]) for x in w]
    ll = rng.uniform(-6,8); lam = 10**ll
    yf=np.array(y,dtype=float); wf=np.array(w,dtype=float)
    ye=np.array([F(v) for v in yf],dtype=object); we=np.array([F(v) for v in wf],dtype=object)
    ze = exact(ye, F(lam), we)
    if n<=20:
        zd = dense_exact([F(v) for v in yf], F(lam), [F(v) for v in wf])
        assert list(ze)==zd, (n,w,lam)
    zf = ws2d(yf, lam, wf)
    zr = np.array([float(v) for v in ze])
    err = np.max(np.abs(zf-zr))/max(np.max(np.abs(zr)),1e-300)
    if err>worst: worst=err; worstcase=(n,mode,ll,sum(wf>0))
    if err>1e-8: print('err',err,n,mode,round(ll,2),int(sum(wf>0)))
print('worst',worst,worstcase,time.time()-t0)
