import numpy as np, warnings, math
warnings.simplefilter('ignore')
exec(open('p07.py').read().split("rng=np.random.default_rng(3)")[0])
from hdc.algo.ops.stats import gammafit
rng=np.random.default_rng(7)
worst=[]
dt='float32'
for k in range(4000):
    n=int(rng.integers(3,200)); shape=10**rng.uniform(-1.3,2.7); scale=10**rng.uniform(-1,4)
    x=rng.gamma(shape,scale,n)
    zfrac=rng.choice([0,0,0.2,0.6,0.85])
    x[rng.random(n)<zfrac]=0
    nd=-9999.
    x[rng.random(n)<rng.choice([0,0.1])]=nd
    x=x.astype(dt)
    c0=int(rng.integers(0,max(1,n-2))); c1=int(rng.integers(c0+2,n+1))
    cal=x[c0:c1].astype(float); pos=np.unique(cal[cal>0])
    if pos.size<2: continue
    r,par=ref_spi(x,nd,c0,c1)
    o=gammastd_yxt(x.reshape(1,1,-1),nd,c0,c1)[0,0].astype(float)
    if par is None: continue
    val=(x!=nd)&(x>=0)
    rv=r[val]; ov=o[val]
    ok=np.abs(rv)<=7000
    d=np.abs(ov[ok]-np.rint(rv[ok]))
    if d.size and d.max()>3:
        a32,b32=gammafit(x[c0:c1])
        i=np.argmax(d)
        worst.append((d.max(),n,c1-c0,pos.size,shape,par[0],a32,par[1],b32,par[2], rv[ok][i], ov[ok][i]))
worst.sort(reverse=True)
for w in worst[:12]: print(w)
print(len(worst))
