import numpy as np, warnings, itertools, math, time
warnings.simplefilter('ignore')
from scipy.stats import norm
from hdc.algo.ops.stats import _mann_kendall_trend_gu, _mann_kendall_trend_gu_nd
def weak_orders(n):
    # all rank patterns: sequences a in {0..k-1}^n using all values 0..k-1 (surjective)
    for k in range(1,n+1):
        for a in itertools.product(range(k),repeat=n):
            if len(set(a))==k: yield a
def ref(x):
    x=[float(v) for v in x]; n=len(x)
    S=sum((x[j]>x[i])-(x[j]<x[i]) for i in range(n) for j in range(i+1,n))
    tau=S/(n*(n-1)/2)
    from collections import Counter
    var=(n*(n-1)*(2*n+5)-sum(t*(t-1)*(2*t+5) for t in Counter(x).values()))/18
    if S>0: z=(S-1)/math.sqrt(var) if var>0 else float('nan')
    elif S<0: z=(S+1)/math.sqrt(var) if var>0 else float('nan')
    else: z=0.0
    p=2*norm.sf(abs(z))
    sl=np.median([(x[j]-x[i])/(j-i) for i in range(n) for j in range(i+1,n)])
    tr=0 if not p<0.05 else (1 if z>0 else -1 if z<0 else 0)
    return tau,p,sl,tr
t0=time.time(); bad=0; tot=0
for n in range(2,7):
    pats=np.array(list(weak_orders(n)),dtype='int16')
    for dt in ('int16','float32'):
        tau,p,sl,tr=_mann_kendall_trend_gu(pats.astype(dt))
        for i,a in enumerate(pats):
            r=ref(a); tot+=1
            ok=abs(tau[i]-r[0])<1e-6 and (abs(p[i]-r[1])<1e-6 or (np.isnan(p[i]) and np.isnan(r[1]))) and abs(sl[i]-r[2])<1e-6 and tr[i]==r[3]
            if not ok:
                bad+=1
                if bad<8: print(dt,a,(tau[i],p[i],sl[i],tr[i]),r)
print(tot,bad,time.time()-t0)
print(_mann_kendall_trend_gu(np.array([3,3,3,3],'int16')))
