import numpy as np, warnings
from hdc.algo.ops import ws2dgu, ws2dpgu, ws2doptv, ws2doptvp, ws2doptvplc, ws2dwcv, ws2dwcvp
y = np.array([10, 12, 15, 13, 18, 22, 21, 25, 30, 28, 33, 31], dtype=float)
sr = np.arange(-2,2.1,0.5)
def show(tag, y, nd):
    print(tag, 'nodata=',nd)
    print('  gu  ', ws2dgu(y, 10.0, nd))
    print('  pgu ', ws2dpgu(y, 10.0, nd, 0.9))
    print('  optv', *ws2doptv(y, nd, sr))
    print('  optvp', *ws2doptvp(y, nd, 0.9, sr))
    print('  wcv F', *ws2dwcv(y, nd, sr, False))
    print('  wcv T', *ws2dwcv(y, nd, sr, True))
    print('  wcvp F', *ws2dwcvp(y, nd, 0.9, sr, False))
    print('  wcvp T', *ws2dwcvp(y, nd, 0.9, sr, True))
for ph in (-3000., 0., 20., 9999., np.nan, np.inf, -np.inf):
    yy = y.copy(); yy[[3,4,8]] = ph
    nd = ph if np.isfinite(ph) else -9999.
    show('placeholder %r'%ph, yy, nd)
