import sys, threading, itertools, time
from hdc.algo.ops._helper import lazycompile
class Sched:
    def __init__(self, code, nthreads, opcode=False):
        self.code=code; self.n=nthreads; self.opcode=opcode
        self.go=[threading.Semaphore(0) for _ in range(nthreads)]
        self.arrived=threading.Semaphore(0)
        self.done=[False]*nthreads; self.tid={}
        self.steps=[0]*nthreads
    def tracer(self, frame, event, arg):
        if frame.f_code is not self.code: return None
        if self.opcode: frame.f_trace_opcodes=True
        i=self.tid[threading.get_ident()]
        def local(frame, event, arg):
            if event == ('opcode' if self.opcode else 'line'):
                self.steps[i]+=1
                self.arrived.release(); self.go[i].acquire()
            return local
        # park at call too
        self.arrived.release(); self.go[i].acquire()
        return local
    def run(self, fn, schedule):
        res=[None]*self.n; err=[None]*self.n
        def body(i):
            self.tid[threading.get_ident()]=i
            sys.settrace(self.tracer)
            try: res[i]=fn(i)
            except BaseException as e: err[i]=repr(e)
            finally:
                sys.settrace(None); self.done[i]=True; self.arrived.release()
        ts=[threading.Thread(target=body,args=(i,)) for i in range(self.n)]
        for t in ts: t.start()
        for _ in range(self.n): self.arrived.acquire()   # all parked at call (or done)
        pos=0; used=[]
        while not all(self.done):
            live=[i for i in range(self.n) if not self.done[i]]
            i=schedule[pos] if pos<len(schedule) and schedule[pos] in live else live[0]
            pos+=1; used.append(i)
            self.go[i].release(); self.arrived.acquire()
        for t in ts: t.join()
        return res, err, used
compiles=[]
def fake_decorator(f):
    compiles.append(1)
    def inner(*a): return ('compiled', f(*a))
    return inner
def make():
    @lazycompile(fake_decorator)
    def k(x): return x*2
    return k
k=make()
code=k.__code__  # wrapper code (wraps copies attrs but code object is wrapper's)
print(code.co_name, code.co_firstlineno)
for opcode in (False, True):
    results=set(); nsched=0; t0=time.time()
    L = 8 if not opcode else 14
    for sched in itertools.product(range(2), repeat=L):
        k=make(); compiles.clear()
        s=Sched(k.__code__,2,opcode)
        res,err,used=s.run(lambda i: k(i+1), list(sched))
        nsched+=1
        results.add((tuple(res),tuple(err),len(compiles)))
    print('opcode' if opcode else 'line', nsched, results, s.steps, round(time.time()-t0,2))
