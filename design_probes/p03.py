import numpy as np, warnings, time
warnings.simplefilter('ignore')
from scipy.linalg import solveh_banded
from hdc.algo.ops import ws2dgu, ws2dpgu
def solve(y,lam,w):
    n=len(y)
    ab=np.zeros((3,n))
    # upper form: ab[2]=diag, ab[1]=super1, ab[0]=super2
    d=np.full(n,6.0); d[[0,-1]]=1; d[[1,-2]]=5
    if n==3: d=np.array([1.,4.,1.])
    ab[2]=w+lam*d
    s1=np.full(n,-4.0); s1[1]=-2; s1[-1]=-2; s1[0]=0
    if n==3: s1=np.array([0,-2.,-2.])
    ab[1]=lam*s1
    s2=np.full(n,1.0); s2[:2]=0
    ab[0]=lam*s2
    return solveh_banded(ab, w*np.where(w>0,y,0.0))
def ref_gu(y,lam,valid): 
    return solve(y,lam,valid.astype(float))
def ref_pgu(y,lam,valid,p):
    w=valid.astype(float); z=np.zeros(len(y)); minmargin=np.inf
    for it in range(10):
        marg=np.abs(y-z)[valid]; 
        if marg.size: minmargin=min(minmargin, marg[marg>0].min() if (marg>0).any() else np.inf)
        wa=np.where(y>z,p,1-p); ww=w*wa
        znew=solve(y,lam,ww)
        if np.array_equal(wa[valid], getattr(ref_pgu,'_prev',None)) : pass
        if np.sum(np.abs(znew-z))==0: z=znew; break
        z=znew
    return z, minmargin, it
rng=np.random.default_rng(1)
stats=dict(n=0,gu_bad=0,pgu_bad=0,pgu_bad_nonfragile=0,tie=0,iters10=0)
t0=time.time()
for k in range(3000):
    n=int(rng.integers(4,300)); t=np.arange(n)
    y=np.round(rng.uniform(-8000,8000)+rng.uniform(0,2000)*np.sin(t/rng.uniform(1,20))+rng.normal(0,rng.uniform(0,500),n))
    y=np.clip(y,-10000,10000)
    valid=rng.random(n)>=rng.choice([0,0.1,0.5,0.8])
    if valid.sum()<2: continue
    nd=-20000.
    yy=y.copy(); yy[~valid]=nd
    lam=10**rng.uniform(-3,5); p=rng.uniform(0.02,0.98)
    stats['n']+=1
    zr=ref_gu(yy,lam,valid)
    if np.abs(zr).max()>32000: continue
    o=ws2dgu(yy,lam,nd).astype(int)
    d=np.abs(o-np.rint(zr))
    tie=np.abs(np.abs(zr-np.floor(zr))-0.5)<1e-6
    if (d[~tie]>0).any() or (d>1).any(): stats['gu_bad']+=1
    stats['tie']+=int(tie.any())
    zr,mm,it=ref_pgu(yy,lam,valid,p)
    if np.abs(zr).max()>32000: continue
    stats['iters10']+= (it==9)
    o=ws2dpgu(yy,lam,nd,p).astype(int)
    d=np.abs(o-np.rint(zr)); tie=np.abs(np.abs(zr-np.floor(zr))-0.5)<1e-6
    if (d[~tie]>0).any() or (d>1).any():
        stats['pgu_bad']+=1
        if mm>1e-6: stats['pgu_bad_nonfragile']+=1; print('nonfragile mismatch',n,lam,p,mm,it,int(d.max()))
print(stats, time.time()-t0)
# investigate gu mismatch
rng=np.random.default_rng(1)
from hdc.algo.ops.ws2d import ws2d
for k in range(3000):
    n=int(rng.integers(4,300)); t=np.arange(n)
    y=np.round(rng.uniform(-8000,8000)+rng.uniform(0,2000)*np.sin(t/rng.uniform(1,20))+rng.normal(0,rng.uniform(0,500),n))
    y=np.clip(y,-10000,10000)
    valid=rng.random(n)>=rng.choice([0,0.1,0.5,0.8])
    if valid.sum()<2: continue
    nd=-20000.
    yy=y.copy(); yy[~valid]=nd
    lam=10**rng.uniform(-3,5); p=rng.uniform(0.02,0.98)
    zr=ref_gu(yy,lam,valid)
    if np.abs(zr).max()>32000: continue
    o=ws2dgu(yy,lam,nd).astype(int)
    d=np.abs(o-np.rint(zr)); tie=np.abs(np.abs(zr-np.floor(zr))-0.5)<1e-6
    if (d[~tie]>0).any() or (d>1).any():
        zi=ws2d(yy,lam,valid.astype(float))
        gaps=np.diff(np.where(valid)[0]).max()
        D=np.diff(np.eye(n),2,axis=0); A=np.diag(valid.astype(float))+lam*D.T@D
        print('gu mismatch n',n,'lam',lam,'valid',valid.sum(),'maxgap',gaps,'cond',np.linalg.cond(A),'max|zi-zr|',np.abs(zi-zr).max(), 'where', np.where(d>0)[0], zr[d>0], zi[d>0])
    zr2,mm,it=ref_pgu(yy,lam,valid,p)
