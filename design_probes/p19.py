import numpy as np, warnings, xarray as xr, pandas as pd
warnings.simplefilter('ignore')
import hdc.algo
t=pd.date_range('2000-01-01',periods=6,freq='10D')
d=xr.DataArray(np.arange(6*2*2,dtype=float).reshape(6,2,2),dims=('time','y','x'),coords={'time':t})
def seq(**kw):
    try: return [(x.attrs['agg_start'][:10],x.attrs['agg_stop'][:10],x.attrs['agg_n']) for x in d.hdc.iteragg.sum(**kw)]
    except Exception as e: return 'EXC '+repr(e)[:90]
print('n=2', seq(n=2))
print('n=6', seq(n=6)); print('n=7', seq(n=7))
print('begin off', seq(n=2, begin='2000-01-05'))
print('end off', seq(n=2, end='2000-01-05'))
print('begin off nearest', seq(n=2, begin='2000-01-05', method='nearest'))
print('end off ffill', seq(n=2, end='2000-01-05', method='ffill'))
print('begin before axis ffill', seq(n=2, begin='1999-01-05', method='ffill'))
print('end after axis bfill', seq(n=2, end='2001-01-05', method='bfill'))
print('begin<end', seq(n=1, begin='2000-01-11', end='2000-02-10'))
print('begin==end', seq(n=1, begin='2000-01-11', end='2000-01-11'))
print('n=2 end=first', seq(n=2, end='2000-01-01'))
# non-time dim
print('dim y', [ (x.attrs['agg_start'],x.attrs['agg_stop'],x.dims) for x in d.hdc.iteragg.sum(n=1, dim='y')])
print('dim y begin off', [ (x.attrs['agg_start'],x.attrs['agg_stop'],x.dims) for x in d.assign_coords(y=[10,20]).hdc.iteragg.sum(n=1, dim='y', begin=15)])
