import types, numpy as np, random, time, sys
from fractions import Fraction as F
from hdc.algo.ops.ws2d import ws2d
pf = ws2d.py_func
def fzeros(n): 
    a = np.empty(n, dtype=object); a[:] = F(0); return a
g = dict(pf.__globals__); g['zeros'] = fzeros
exact = types.FunctionType(pf.__code__, g)
def dense(n,lam,w):
    D=np.diff(np.eye(n),2,axis=0); return np.diag(w)+lam*D.T@D
rng = random.Random(int(sys.argv[1]))
rows=[]
for it in range(600):
    n = rng.choice([4,5,6,8,10,20,50,100,200,400])
    y = [rng.randint(-10000,10000) for _ in range(n)]
    mode = rng.choice(['fewvalid','edge','rand','all'])
    if mode=='all': w=[1]*n
    elif mode=='rand': w=[rng.choice([0,1]) for _ in range(n)]
    elif mode=='edge':
        a=rng.randint(0,n//2); b=rng.randint(0,max(n//2-1,0)); w=[0]*a+[1]*(n-a-b)+[0]*b
    else:
        w=[0]*n
        for i in rng.sample(range(n),rng.choice([2,2,3])): w[i]=1
    if sum(w)<2: continue
    ll = rng.choice([rng.uniform(-6,8), rng.uniform(6,8), rng.uniform(-6,-4)]); lam = 10**ll
    yf=np.array(y,dtype=float); wf=np.array(w,dtype=float)
    ye=np.array([F(v) for v in yf],dtype=object); we=np.array([F(v) for v in wf],dtype=object)
    ze = exact(ye, F(lam), we)
    zf = ws2d(yf, lam, wf)
    zr = np.array([float(v) for v in ze])
    err = np.max(np.abs(zf-zr))/max(np.max(np.abs(zr)),1e-300)
    A=dense(n,lam,wf); k=np.linalg.cond(A)
    # backward error: residual
    r = A@zf - wf*yf
    be = np.max(np.abs(r))/(np.max(np.abs(A).sum(1))*np.max(np.abs(zf))+np.max(np.abs(wf*yf)))
    rows.append((k,err,be,n,mode,ll))
rows.sort()
import math
# bucket by log10 cond
b={}
for k,err,be,n,mode,ll in rows:
    key=int(math.log10(k))
    e=b.setdefault(key,[0,0,0]); e[0]+=1; e[1]=max(e[1],err); e[2]=max(e[2],be)
for k in sorted(b): print('cond 1e%d: n=%d maxerr=%.2e maxerr/(cond*u)=%.2e maxbe=%.2e'%(k,b[k][0],b[k][1],b[k][1]/(10**k*1.1e-16),b[k][2]))
