import numpy as np, warnings, xarray as xr, pandas as pd, dask, dask.array as da
warnings.simplefilter('ignore')
import hdc.algo
rng=np.random.default_rng(0)
T,Y,X=12,5,7
t=pd.date_range('2000-01-01',periods=T,freq='10D')
data=rng.integers(1,3000,(T,Y,X)).astype('int16')
d=xr.DataArray(data,dims=('time','y','x'),coords={'time':t,'y':np.arange(Y),'x':np.arange(X)},attrs={'nodata':-9999},name='band')
zones=xr.DataArray(rng.integers(0,3,(Y,X)).astype('int16'),dims=('y','x'),attrs={'nodata':-1})
def cmp(name, f, chunkings):
    try: eager=f(d)
    except Exception as e: print(name,'EAGER EXC',repr(e)[:100]); return
    for ch in chunkings:
        for sched in ('synchronous','threads'):
            try:
                with dask.config.set(scheduler=sched):
                    lazy=f(d.chunk(ch)); 
                    lz=lazy.compute()
                if isinstance(eager, xr.Dataset):
                    ok=all(np.array_equal(eager[v].transpose(*lz[v].dims).values, lz[v].values, equal_nan=True) and eager[v].dtype==lz[v].dtype for v in eager.data_vars)
                else:
                    ok=np.array_equal(eager.transpose(*lz.dims).values, lz.values, equal_nan=True) and eager.dtype==lz.dtype and eager.dims==lz.dims
                print(name, ch, sched, 'OK' if ok else 'MISMATCH dims %s vs %s dtype %s vs %s'%(getattr(eager,'dims',None),getattr(lz,'dims',None),getattr(eager,'dtype',None),getattr(lz,'dtype',None)))
            except Exception as e:
                print(name, ch, sched, 'EXC', type(e).__name__, str(e)[:100].replace('\n',' '))
chs=[{'time':-1,'y':1,'x':1},{'time':-1,'y':2,'x':3},{'time':-1,'y':-1,'x':-1},{'time':4,'y':-1,'x':-1}]
sr=np.arange(-2,2.1,0.5)
cmp('whits', lambda a: a.hdc.whit.whits(nodata=-9999,s=10.), chs)
cmp('whits p', lambda a: a.hdc.whit.whits(nodata=-9999,s=10.,p=0.9), chs)
cmp('whitsvc', lambda a: a.hdc.whit.whitsvc(nodata=-9999,srange=sr), chs)
cmp('whitsvc p', lambda a: a.hdc.whit.whitsvc(nodata=-9999,srange=sr,p=0.9), chs)
cmp('whitswcv', lambda a: a.hdc.whit.whitswcv(nodata=-9999,srange=sr,robust=False), chs)
cmp('spi', lambda a: a.hdc.algo.spi(), chs)
cmp('spi grp', lambda a: a.hdc.algo.spi(groups=[0,1,2]*4), chs)
cmp('lroo', lambda a: (a>1500).astype('uint8').hdc.algo.lroo(), chs)
cmp('croo', lambda a: (a>1500).astype('uint8').hdc.algo.croo(), chs)
cmp('autocorr', lambda a: a.hdc.algo.autocorr(), chs)
cmp('autocorr yxt', lambda a: a.transpose('y','x','time').hdc.algo.autocorr(), chs)
cmp('mktrend', lambda a: a.hdc.algo.mktrend(), chs)
cmp('mean_grp', lambda a: a.hdc.algo.mean_grp(np.array([0,1,2]*4,dtype='int16')), chs)
cmp('rolling', lambda a: a.hdc.rolling.sum(3), chs)
cmp('zonal', lambda a: a.hdc.zonal.mean(zones,[0,1,2]), chs)
