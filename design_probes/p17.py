import numpy as np, warnings, itertools, time
warnings.simplefilter('ignore')
from hdc.algo.ops.stats import rolling_sum, mean_grp
from hdc.algo.ops import lroo
ND=-9999
t0=time.time(); tot=0; bad=0; amalg=0
for L in range(1,9):
    S=np.array(list(itertools.product([ND,-1,0,1,2],repeat=L)),dtype='int16')
    for w in range(1,L+1):
        out=rolling_sum(S,w,float(ND))
        # model
        valid=(S!=ND)
        vals=np.where(valid,S,0).astype(np.int64)
        cs=np.concatenate([np.zeros((len(S),1),np.int64),np.cumsum(vals,1)],1); cv=np.concatenate([np.zeros((len(S),1),np.int64),np.cumsum(valid,1)],1)
        for i in range(w-1,L):
            sm=cs[:,i+1]-cs[:,i+1-w]; nv=cv[:,i+1]-cv[:,i+1-w]
            o=out[:,i]
            ok=np.where(nv==w, o==sm, np.where(nv==0, o==ND, (o==ND)|(o==sm)))
            tot+=len(S); bad+=int((~ok).sum())
        if w>1 and not (out[:,:w-1]==ND).all(): print('head not ND')
print('rolling',tot,bad,round(time.time()-t0,1))
t0=time.time()
tot=0;bad=0
for L in range(1,17):
    B=((np.arange(2**L)[:,None]>>np.arange(L))&1).astype('uint8')
    o=lroo(B)
    # model
    best=np.zeros(len(B),int); cur=np.zeros(len(B),int)
    for j in range(L):
        cur=np.where(B[:,j]==1,cur+1,0); best=np.maximum(best,cur)
    ref=np.where(best>=2,best,0)
    tot+=len(B); bad+=int((o!=ref).sum())
print('lroo',tot,bad,round(time.time()-t0,1))
