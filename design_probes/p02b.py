import numpy as np, warnings
warnings.simplefilter('ignore')
from hdc.algo.ops import ws2dgu, ws2dpgu, ws2doptv, ws2doptvp, ws2doptvplc, ws2dwcv, ws2dwcvp
rng = np.random.default_rng(0)
sr = np.arange(-1.8,4.2,0.2)
variants = {
 'gu': lambda y,nd: (ws2dgu(y,10.,nd),0),
 'pgu': lambda y,nd: (ws2dpgu(y,10.,nd,0.9),0),
 'optv': lambda y,nd: ws2doptv(y,nd,sr),
 'optvp': lambda y,nd: ws2doptvp(y,nd,0.9,sr),
 'optvplc': lambda y,nd: ws2doptvplc(y.astype('int16'),nd,0.9,0.7),
 'wcvF': lambda y,nd: ws2dwcv(y,nd,sr,False),
 'wcvT': lambda y,nd: ws2dwcv(y,nd,sr,True),
 'wcvpF': lambda y,nd: ws2dwcvp(y,nd,0.9,sr,False),
 'wcvpT': lambda y,nd: ws2dwcvp(y,nd,0.9,sr,True),
}
bad = {k:0 for k in variants}; tot=0
ex={}
for it in range(300):
    n = int(rng.integers(8,60))
    t = np.arange(n)
    y = np.round(3000+2000*np.sin(t/ rng.uniform(2,10)) + rng.normal(0,300,n))
    miss = rng.random(n) < rng.uniform(0.05,0.5)
    if (~miss).sum()<6 or miss.sum()==0: continue
    tot+=1
    outs={}
    for name,f in variants.items():
        res=[]
        for ph in (-3000., 0., 3000., 9999.):
            yy=y.copy(); yy[miss]=ph
            if (y[~miss]==ph).any(): continue
            try:
                o,l=f(yy,ph); res.append((tuple(np.asarray(o).tolist()), float(l)))
            except Exception as e:
                res.append(('EXC',repr(e)[:60]))
        if len(set(res))>1:
            bad[name]+=1
            ex.setdefault(name,(y.tolist(),miss.tolist(),[r[1] for r in res]))
print(tot,bad)
for k,v in ex.items(): print(k, v[2])
