import numpy as np, warnings, types, numba
warnings.simplefilter('ignore')
from hdc.algo import ops
from hdc.algo.ops import stats, ws2d as ws2dm, ws2doptvp as m_optvp, ws2dwcvp as m_wcvp, ws2doptvplc as m_lc, autocorr as m_ac, zonal, lroo as m_lroo, tinterpolate as m_ti
import importlib
mods=[importlib.import_module('hdc.algo.ops.'+m) for m in ('ws2d','ws2dgu','ws2dpgu','ws2doptv','ws2doptvp','ws2doptvplc','ws2dwcv','ws2dwcvp','stats','autocorr','lroo','tinterpolate','zonal')]
from numba.core.registry import CPUDispatcher
progs={}
for m in mods:
    for k,v in vars(m).items():
        if getattr(v,'__module__',None)!=m.__name__: continue
        if isinstance(v,CPUDispatcher): progs[(m.__name__.split('.')[-1],k)]=('njit',v.py_func)
        elif hasattr(v,'__wrapped__') and callable(v): progs[(m.__name__.split('.')[-1],k)]=('lazy',v.__wrapped__)
for k,v in sorted(progs.items()): print(k,v[0])
print(len(progs))
