import numpy as np, warnings, xarray as xr, pandas as pd, time, itertools
warnings.simplefilter('ignore')
import hdc.algo
rng=np.random.default_rng(0)
def model(L,n,b,e):
    # b,e indices or None
    if n is None: n=L
    bi = L-1 if b is None else b
    ei = 0 if e is None else e
    return [(k-n+1,k) for k in range(bi, max(ei,n-1)-1, -1)] if n>=1 else []
bad=0; tot=0; t0=time.time(); ex={}
for L in range(1,8):
    t=pd.date_range('2000-01-01',periods=L,freq='10D')
    data=rng.normal(0,1,(L,2)); data[rng.random((L,2))<0.2]=np.nan
    d=xr.DataArray(data,dims=('time','x'),coords={'time':t},attrs={'foo':1})
    for n in list(range(1,L+2))+[None]:
        for b in [None]+list(range(L)):
            for e in [None]+list(range(L)):
                for kind in ('sum','mean','full'):
                    tot+=1
                    exp=model(L,n,b,e)
                    kw=dict(n=n)
                    if b is not None: kw['begin']=str(t[b])
                    if e is not None: kw['end']=str(t[e])
                    try: got=list(getattr(d.hdc.iteragg,kind)(**kw))
                    except Exception as ex_: got='EXC '+repr(ex_)[:80]
                    ok = not isinstance(got,str) and len(got)==len(exp)
                    if ok:
                        for item,(j,k) in zip(got,exp):
                            nn=k-j+1
                            if item.attrs.get('agg_start')!=str(t[j]) or item.attrs.get('agg_stop')!=str(t[k]) or item.attrs.get('agg_n')!=nn: ok=False;break
                            sl=data[j:k+1]
                            if kind=='full':
                                if not np.array_equal(item.values,sl,equal_nan=True) or not item.time.to_index().equals(t[j:k+1]): ok=False;break
                            else:
                                with np.errstate(all='ignore'): ref=np.nansum(sl,0) if kind=='sum' else np.nanmean(sl,0)
                                if not np.allclose(item.values.squeeze(),ref,equal_nan=True) or item.time.values[0]!=t[k].to_datetime64(): ok=False;break
                    if not ok: bad+=1; ex.setdefault(kind,(L,n,b,e,exp[:3], got if isinstance(got,str) else [(i.attrs['agg_start'][:10],i.attrs['agg_stop'][:10]) for i in got][:3]))
print(tot,bad,round(time.time()-t0,1)); print(ex)
