import numpy as np, warnings
warnings.simplefilter('ignore')
from hdc.algo.ops import ws2doptvplc, ws2doptvp
from hdc.algo.ops.ws2doptvplc import ws2doptvplc_tyx
rng=np.random.default_rng(0)
g_hi=np.arange(-2,1.2,0.2); g_lo=np.arange(0,3.2,0.2); g_nan=np.arange(-1,1.2,0.2)
cnt={'hi':0,'lo':0,'nan=lo':0,'nan=mid':0,'nan=other':0}
for k in range(200):
    n=int(rng.integers(10,80)); y=np.round(3000+2000*np.sin(np.arange(n)/rng.uniform(1,10))+rng.normal(0,rng.uniform(10,800),n)).astype('int16')
    p=0.9
    for lc,name in ((0.7,'hi'),(0.3,'lo')):
        o,l=ws2doptvplc(y,-1.,p,lc); o2,l2=ws2doptvp(y.astype(float),-1.,p,g_hi if name=='hi' else g_lo)
        cnt[name]+= (abs(l-l2)<1e-9*l and np.array_equal(o,o2))
    o,l=ws2doptvplc(y,-1.,p,np.nan)
    o_lo,l_lo=ws2doptvp(y.astype(float),-1.,p,g_lo); o_mid,l_mid=ws2doptvp(y.astype(float),-1.,p,g_nan)
    if abs(l-l_lo)<1e-9*l and np.array_equal(o,o_lo): cnt['nan=lo']+=1
    elif abs(l-l_mid)<1e-9*l and np.array_equal(o,o_mid): cnt['nan=mid']+=1
    else: cnt['nan=other']+=1
print(cnt)
