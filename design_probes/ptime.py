import time; t0=time.time()
import numpy as np, warnings
warnings.simplefilter('ignore')
import hdc.algo
from hdc.algo.ops import ws2dgu, ws2dpgu, ws2doptv, ws2doptvp, ws2doptvplc, ws2dwcv, ws2dwcvp, lroo, tinterpolate, autocorr
print('import', time.time()-t0)
y=np.array([10, 12, 15, 13, 18, 22, 21, 25, 30, 28, 33, 31], dtype=float); sr=np.arange(-2,2.1,0.5)
def T(name,f):
    t=time.time(); f(); print(name, round(time.time()-t,2))
T('gu',lambda: ws2dgu(y,10.,-1.))
T('pgu',lambda: ws2dpgu(y,10.,-1.,0.9))
T('optv',lambda: ws2doptv(y,-1.,sr))
T('optvp',lambda: ws2doptvp(y,-1.,0.9,sr))
T('optvplc',lambda: ws2doptvplc(y.astype('int16'),-1.,0.9,0.7))
T('wcv',lambda: ws2dwcv(y,-1.,sr,True))
T('wcvp',lambda: ws2dwcvp(y,-1.,0.9,sr,True))
from hdc.algo.ops.stats import gammastd_yxt, gammastd_grp, rolling_sum, mean_grp, _mann_kendall_trend_gu
T('spi',lambda: gammastd_yxt(y.reshape(1,1,-1),-1))
T('mk',lambda: _mann_kendall_trend_gu(y.astype('int16')))
T('roll',lambda: rolling_sum(y.astype('int16'),3,-1))
from hdc.algo.ops.ws2doptvplc import ws2doptvplc_tyx
T('tyx',lambda: ws2doptvplc_tyx(y.reshape(-1,1,1).astype('int16'),0.9,-1))
# throughput
Y=np.random.default_rng(0).integers(0,10000,(20000,100)).astype(float)
T('gu 20000x100', lambda: ws2dgu(Y,10.,-1.))
T('optvp 2000x100', lambda: ws2doptvp(Y[:2000],-1.,0.9,np.arange(-2,4,0.2)))
T('wcv 2000x100', lambda: ws2dwcv(Y[:2000],-1.,np.arange(-2,4,0.2),True))
print('total', time.time()-t0)
