import numpy as np, warnings, time, math
warnings.simplefilter('ignore')
from scipy import special as sc, optimize as so, stats as ss
from hdc.algo.ops.stats import gammastd_yxt, gammafit
def ref_spi(x, nodata, c0, c1):
    x=np.asarray(x,dtype=np.float64)
    validmask=(x!=nodata)&(x>=0)
    nv=validmask.sum(); nz=((x==0)&(x!=nodata)).sum()
    out=np.full(len(x),float(nodata))
    if nv==0: return out,None
    p0=nz/nv
    if p0>0.9: return out,None
    cal=x[c0:c1]; pos=cal[cal>0]
    if pos.size==0: return out,None
    m=pos.mean(); s=math.log(m)-np.log(pos).mean()
    if not s>0: return out,None
    f=lambda a: math.log(a)-sc.digamma(a)-s
    lo,hi=1e-6,1e9
    a=so.brentq(f,1e-4/ max(s,1e-12) if False else 1e-8, 1e12, xtol=1e-300, rtol=4*np.finfo(float).eps, maxiter=500)
    b=m/a
    val=validmask
    pr=p0+(1-p0)*sc.gammainc(a,x[val]/b)
    out[val]=sc.ndtri(pr)*1000
    return out,(a,b,p0)
rng=np.random.default_rng(3)
st=dict(n=0,bad=0,cells=0,tiecells=0,maxabs=0,big=0)
t0=time.time()
for dt in ('float64','int16','float32'):
  for k in range(1500):
    n=int(rng.integers(3,200)); shape=10**rng.uniform(-1.3,2.7); scale=10**rng.uniform(-1,4)
    x=rng.gamma(shape,scale,n)
    if dt=='int16': x=np.clip(np.round(x),0,32000)
    zfrac=rng.choice([0,0,0.2,0.6,0.85])
    x[rng.random(n)<zfrac]=0
    nd=-9999.
    x[rng.random(n)<rng.choice([0,0.1])]=nd
    x=x.astype(dt)
    c0=int(rng.integers(0,max(1,n-2))); c1=int(rng.integers(c0+2,n+1))
    cal=x[c0:c1].astype(float); pos=np.unique(cal[cal>0])
    if pos.size<2: continue
    r,par=ref_spi(x,nd,c0,c1)
    o=gammastd_yxt(x.reshape(1,1,-1),nd,c0,c1)[0,0].astype(float)
    if par is None:
        if not (o==nd).all(): st['bad']+=1; print('nofit mismatch')
        continue
    st['n']+=1
    val=(x!=nd)&(x>=0)
    rv=r[val]; ov=o[val]
    ok=np.abs(rv)<=7000
    st['big']+=int((~ok).sum())
    d=np.abs(ov[ok]-np.rint(rv[ok]))
    tie=np.abs(np.abs(rv[ok]-np.floor(rv[ok]))-0.5)<(1e-3 if dt!='float32' else 0.5)
    st['cells']+=ok.sum(); st['tiecells']+=int(tie.sum())
    if dt!='float32' and ((d[~tie]>0).any() or (d>1).any()):
        st['bad']+=1; i=np.argmax(d); print(dt,'bad',n,par,rv[ok][i],ov[ok][i])
    if dt=='float32': st['maxabs']=max(st['maxabs'],float(d.max()) if d.size else 0)
  print(dt,st,time.time()-t0)
