import numpy as np, warnings, xarray as xr, pandas as pd
warnings.simplefilter('ignore')
import hdc.algo
from hdc.algo.utils import get_calibration_indices, to_linspace
rng=np.random.default_rng(0)
def mk(T, dt='int16', irregular=False):
    if irregular: t=pd.DatetimeIndex(np.sort(rng.choice(pd.date_range('2000-01-01',periods=T*12,freq='D'),T,replace=False)))
    else: t=pd.date_range('2000-01-01',periods=T,freq='10D')
    data=rng.gamma(2,300,(T,2,2)).round().astype(dt)+1
    return xr.DataArray(data,dims=('time','y','x'),coords={'time':t},attrs={'nodata':-9999},name='b')
bad=0; tot=0; errs={}
for it in range(300):
    T=int(rng.integers(6,40)); d=mk(T, rng.choice(['int16','float32']), rng.random()<0.5)
    t=d.time.to_index()
    # begin/end choices
    def pick():
        k=rng.choice(['on','between','before','after','none'])
        if k=='none': return None
        if k=='on': return str(t[rng.integers(0,T)].date())
        if k=='between':
            i=rng.integers(0,T-1); 
            if (t[i+1]-t[i]).days<2: return str(t[i].date())
            return str((t[i]+pd.Timedelta(days=1)).date())
        if k=='before': return str((t[0]-pd.Timedelta(days=int(rng.integers(1,50)))).date())
        return str((t[-1]+pd.Timedelta(days=int(rng.integers(1,50)))).date())
    b,e=pick(),pick()
    G=int(rng.integers(1,5)); labels=rng.integers(0,G,T)
    # model
    bb=pd.Timestamp(b) if b else t[0]; ee=pd.Timestamp(e) if e else t[-1]
    inwin=(t>=bb)&(t<=ee)
    ung_valid = inwin.sum()>=2
    tot+=1
    try:
        r=d.hdc.algo.spi(calibration_begin=b,calibration_end=e); got='ok'
    except ValueError as ex: got='VE'
    except Exception as ex: got='EXC '+type(ex).__name__+str(ex)[:60]
    exp='ok' if ung_valid else 'VE'
    if got!=exp: bad+=1; errs.setdefault(('ungrouped',exp,got),(b,e,str(t[0].date()),str(t[-1].date()),int(inwin.sum())))
    if got=='ok':
        # check window via reference: compute per-pixel by restricting: compare with spi on full but explicit begin/end equal to first/last in-window step
        fi=t[inwin][0]; la=t[inwin][-1]
        r2=d.hdc.algo.spi(calibration_begin=str(fi),calibration_end=str(la))
        if not np.array_equal(r.values,r2.values): bad+=1; errs.setdefault(('window-canon',),(b,e))
        if r.attrs['spi_calibration_begin']!=str(fi) or r.attrs['spi_calibration_end']!=str(la): bad+=1; errs.setdefault(('attrs',),(b,e,r.attrs,str(fi),str(la)))
    # grouped
    gvalid = all(((labels==g)&inwin).sum()>=2 for g in np.unique(labels))
    try:
        rg=d.hdc.algo.spi(calibration_begin=b,calibration_end=e,groups=labels); gotg='ok'
    except ValueError as ex: gotg='VE'
    except Exception as ex: gotg='EXC '+type(ex).__name__+str(ex)[:80]
    # note: dense relabel requires all groups present
    expg='ok' if gvalid else 'VE'
    if gotg!=expg: bad+=1; errs.setdefault(('grouped',expg,gotg),(b,e,labels.tolist(),inwin.astype(int).tolist()))
    if gotg=='ok':
        for g in np.unique(labels):
            sub=d.isel(time=np.where(labels==g)[0])
            rs=sub.hdc.algo.spi(calibration_begin=b,calibration_end=e)
            a=rg.isel(time=np.where(labels==g)[0]).values; 
            if not np.array_equal(a, rs.values): bad+=1; errs.setdefault(('group-vs-sub',str(d.dtype)),(b,e,labels.tolist(), int(np.abs(a.astype(int)-rs.values).max())))
        # relabel
        mp={g:s for g,s in zip(np.unique(labels), rng.permutation(['10','2','a','B','07'])[:len(np.unique(labels))])}
        rl=d.hdc.algo.spi(calibration_begin=b,calibration_end=e,groups=[mp[g] for g in labels])
        if not np.array_equal(rl.values,rg.values): bad+=1; errs.setdefault(('relabel',),(labels.tolist(),mp))
print(tot,bad)
for k,v in errs.items(): print(k,v)
