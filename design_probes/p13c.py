import numpy as np, warnings, types, numba, importlib, math
warnings.simplefilter('ignore')
from numba.core.registry import CPUDispatcher
from numba.core import types as nbt
MODS=[importlib.import_module('hdc.algo.ops.'+m) for m in ('ws2d','ws2dgu','ws2dpgu','ws2doptv','ws2doptvp','ws2doptvplc','ws2dwcv','ws2dwcvp','stats','autocorr','lroo','tinterpolate','zonal')]
NBMAP={nbt.float64:np.float64, nbt.float32:np.float32, nbt.int16:np.int16, nbt.int32:np.int32, nbt.int64:np.int64, nbt.uint8:np.uint8, nbt.boolean:np.bool_}
class NpProxy:
    def __init__(self): self.rounded=[]
    def __getattr__(self, k): return getattr(np,k)
    def round(self, a, decimals=0, out=None):
        self.rounded.append(np.array(a,copy=True))
        r=np.round(a,decimals)
        if out is None: return r
        with np.errstate(invalid='ignore'): out[...]=r.astype(out.dtype) if out.dtype!=r.dtype else r
        return out
class NumbaShim:
    prange=staticmethod(range)
    def __getattr__(self,k): return getattr(numba,k)
_twins={}
PROXY=NpProxy()
def source_of(obj):
    if isinstance(obj,CPUDispatcher): return obj.py_func
    if hasattr(obj,'__wrapped__'):
        w=obj.__wrapped__
        return w
    return None
def twin(obj):
    src=source_of(obj)
    if src is None: return obj
    key=id(src)
    if key in _twins: return _twins[key]
    g={}
    f=types.FunctionType(src.__code__, g, src.__name__, src.__defaults__, src.__closure__)
    f.__kwdefaults__=src.__kwdefaults__
    _twins[key]=f
    for k,v in src.__globals__.items():
        if isinstance(v,CPUDispatcher) or (callable(v) and hasattr(v,'__wrapped__') and getattr(v,'__module__','').startswith('hdc.algo.ops')): g[k]=twin(v)
        elif v is np: g[k]=PROXY
        elif v is numba: g[k]=NumbaShim()
        elif isinstance(v,nbt.Type) and v in NBMAP: g[k]=NBMAP[v]
        else: g[k]=v
    return f
import hdc.algo.ops as ops
from hdc.algo.ops import stats, zonal as zmod
from hdc.algo.ops.ws2d import ws2d
from hdc.algo.ops.ws2doptvp import _ws2doptvp
from hdc.algo.ops.ws2dwcvp import _ws2dwcvp
from hdc.algo.ops.ws2doptvplc import ws2doptvplc_tyx
rng=np.random.default_rng(0)
n=40
y=np.round(3000+2000*np.sin(np.arange(n)/5)+rng.normal(0,300,n)); y[[3,4,17]]=-1
sr=np.arange(-2,3.1,0.5)
def cmp(name, comp, tw):
    try:
        a=comp(); b=tw()
        a=a if isinstance(a,tuple) else (a,); b=b if isinstance(b,tuple) else (b,)
        ok=all(np.allclose(np.asarray(x,dtype=float),np.asarray(z,dtype=float),rtol=1e-9,atol=0,equal_nan=True) for x,z in zip(a,b))
        md=max(float(np.nanmax(np.abs(np.asarray(x,dtype=float)-np.asarray(z,dtype=float)))) for x,z in zip(a,b))
        print(name,'OK' if ok else 'DIFF',md)
    except Exception as e: print(name,'EXC',type(e).__name__,str(e)[:120])
def gu(kern, ins, outs):
    t=twin(kern)
    def run():
        o=[np.zeros(s,dtype=d) for s,d in outs]; t(*ins,*o); return tuple(o)
    return run
w=(y!=-1).astype(float)
cmp('ws2d', lambda: ws2d(y,10.,w), lambda: twin(ws2d)(y,10.,w))
cmp('ws2dgu', lambda: ops.ws2dgu(y,10.,-1.), gu(ops.ws2dgu,(y,10.,-1.),[(n,'int16')]))
cmp('ws2dpgu', lambda: ops.ws2dpgu(y,10.,-1.,.9), gu(ops.ws2dpgu,(y,10.,-1.,.9),[(n,'int16')]))
cmp('ws2doptv', lambda: ops.ws2doptv(y,-1.,sr), gu(ops.ws2doptv,(y,-1.,sr),[(n,'int16'),(1,'f8')]))
cmp('ws2doptvp', lambda: ops.ws2doptvp(y,-1.,.9,sr), gu(ops.ws2doptvp,(y,-1.,.9,sr),[(n,'int16'),(1,'f8')]))
cmp('ws2doptvplc', lambda: ops.ws2doptvplc(y.astype('int16'),-1.,.9,.7), gu(ops.ws2doptvplc,(y.astype('int16'),-1.,.9,.7),[(n,'int16'),(1,'f8')]))
for rob in (False,True):
    cmp('ws2dwcv %s'%rob, lambda: ops.ws2dwcv(y,-1.,sr,rob), gu(ops.ws2dwcv,(y,-1.,sr,rob),[(n,'int16'),(1,'f8')]))
    cmp('ws2dwcvp %s'%rob, lambda: ops.ws2dwcvp(y,-1.,.9,sr,rob), gu(ops.ws2dwcvp,(y,-1.,.9,sr,rob),[(n,'int16'),(1,'f8')]))
    cmp('_ws2dwcvp %s'%rob, lambda: _ws2dwcvp(np.where(w>0,y,0.),w,.9,sr,rob), lambda: twin(_ws2dwcvp)(np.where(w>0,y,0.),w,.9,sr,rob))
cmp('_ws2doptvp', lambda: _ws2doptvp(np.where(w>0,y,0.),w,.9,sr), lambda: twin(_ws2doptvp)(np.where(w>0,y,0.),w,.9,sr))
cube=np.stack([y,y[::-1],np.roll(y,5),y+100],1).reshape(n,2,2).astype('int16')
cmp('tyx', lambda: ws2doptvplc_tyx(cube,.9,-1), lambda: twin(ws2doptvplc_tyx)(cube,.9,-1))
x=rng.gamma(2,300,n).round(); x[[2,9]]=-9999; x[[5,6]]=0
for dt in ('int16','float32','float64'):
    xx=x.astype(dt)
    cmp('gammafit '+dt, lambda: stats.gammafit(xx[xx>0]), lambda: twin(stats.gammafit)(xx[xx>0]))
    cmp('gammastd '+dt, lambda: stats.gammastd(xx,-9999,3,30), lambda: twin(stats.gammastd)(xx,-9999,3,30))
    cmp('gammastd_yxt '+dt, lambda: stats.gammastd_yxt(xx.reshape(1,1,-1),-9999,3,30), lambda: twin(stats.gammastd_yxt)(xx.reshape(1,1,-1),-9999,3,30))
g=np.tile(np.arange(4),10).astype('int16'); ci=np.array([[0,8]]*4,'int16')
for dt in ('int16','float32'):
    xx=x.astype(dt)
    cmp('gammastd_grp '+dt, lambda: stats.gammastd_grp(xx,g,4,-9999.,ci), gu(stats.gammastd_grp,(xx,g,4,-9999.,ci),[(n,'int16')]))
    cmp('mk_gu '+dt, lambda: stats._mann_kendall_trend_gu(xx), gu(stats._mann_kendall_trend_gu,(xx,),[(1,'f4'),(1,'f4'),(1,'f4'),(1,'i1')]))
    cmp('mk_gu_nd '+dt, lambda: stats._mann_kendall_trend_gu_nd(xx,-9999.), gu(stats._mann_kendall_trend_gu_nd,(xx,-9999.),[(1,'f4'),(1,'f4'),(1,'f4'),(1,'i1')]))
    cmp('mk_yxt '+dt, lambda: stats.mann_kendall_trend_yxt(xx.reshape(1,1,-1)), lambda: twin(stats.mann_kendall_trend_yxt)(xx.reshape(1,1,-1)))
    cmp('mk_1d '+dt, lambda: stats.mann_kendall_trend_1d(xx), lambda: twin(stats.mann_kendall_trend_1d)(xx))
    cmp('mk_sens '+dt, lambda: stats.mk_sens_slope(xx), lambda: twin(stats.mk_sens_slope)(xx))
for dt in ('int16','int32','int64','float32'):
    xx=x.astype(dt)
    cmp('mean_grp '+dt, lambda: stats.mean_grp(xx,g,4,-9999.), gu(stats.mean_grp,(xx,g,4,-9999.),[(n,'f4')]))
for dt in ('int16','int64','float32'):
    xx=x.astype(dt)
    cmp('rolling '+dt, lambda: stats.rolling_sum(xx,3,-9999.), gu(stats.rolling_sum,(xx,3,-9999.),[(n,'f4')]))
cmp('brentq', lambda: stats.brentq(0.6446262296476516,1.5041278691778537,0.5278852360624721), lambda: twin(stats.brentq)(0.6446262296476516,1.5041278691778537,0.5278852360624721))
cmp('mk_score', lambda: stats.mk_score(x), lambda: twin(stats.mk_score)(x))
cmp('mk_var', lambda: stats.mk_variance_s(x), lambda: twin(stats.mk_variance_s)(x))
cmp('mk_z', lambda: stats.mk_z_score(-5,125.), lambda: twin(stats.mk_z_score)(-5,125.))
cmp('mk_p', lambda: stats.mk_p_value(-0.357), lambda: twin(stats.mk_p_value)(-0.357))
from hdc.algo.ops import autocorr as m_ac
import hdc.algo.ops.autocorr as acm
xi=y.astype('int16'); xf=y.astype('float32'); xf[y==-1]=np.nan
cmp('ac_1d_int i16', lambda: acm.autocorr_1d_int(xi,-1), lambda: twin(acm.autocorr_1d_int)(xi,-1))
cmp('ac_1d_int i64', lambda: acm.autocorr_1d_int(xi,-1), lambda: twin(acm.autocorr_1d_int)(xi.astype('int64'),-1))
cmp('ac_1d_float', lambda: acm.autocorr_1d_float(xf), lambda: twin(acm.autocorr_1d_float)(xf))
cmp('ac_1d', lambda: acm.autocorr_1d(xi.astype('int64'),-1), lambda: twin(acm.autocorr_1d)(xi.astype('int64'),-1))
cmp('autocorr', lambda: acm.autocorr(cube.transpose(1,2,0).astype('int64'),-1), lambda: twin(acm.autocorr)(cube.transpose(1,2,0).astype('int64'),-1))
cmp('autocorr_tyx', lambda: acm.autocorr_tyx(cube.astype('int64'),-1), lambda: twin(acm.autocorr_tyx)(cube.astype('int64'),-1))
cmp('lroo', lambda: ops.lroo((y>3000).astype('uint8')), gu(ops.lroo,((y>3000).astype('uint8'),),[(1,'u1')]))
tm=np.zeros(400); pos=np.arange(5,400,10); tm[pos]=1; lab=(np.arange(400)//10).astype('int32')
cmp('tinterp', lambda: ops.tinterpolate(y.astype('int16'),tm,lab,np.zeros(40,'u1')), gu(ops.tinterpolate,(y.astype('int16'),tm,lab,np.zeros(40,'u1')),[(40,'int16')]))
zz=rng.integers(0,3,(2,2)).astype('int16')
cmp('do_mean', lambda: zmod.do_mean(cube,zz,3,-1,-1), lambda: twin(zmod.do_mean)(cube,zz,3,-1,-1))
