import numpy as np, warnings
warnings.simplefilter('ignore')
from hdc.algo.ops.stats import gammastd_yxt, gammastd_grp, gammastd
nd=-9999
base=[10000,10001,10000,10002,10001,9999,10000,10003,9998,10001]
for dt in ('float64','int16','float32'):
    x=np.array(base+[10010,10020,10040, 10100, 10500, 20000, 9990, 9900, 9000, 5000, 1],dtype=dt).reshape(1,1,-1)
    print(dt, gammastd_yxt(x, nd, cal_start=0, cal_stop=10)[0,0].tolist())
    print('   raw', np.round(gammastd(x[0,0].astype(dt), nd, 0, 10)*1000).tolist())
g=np.zeros(21,dtype='int16'); ci=np.array([[0,10]],dtype='int16')
x=np.array(base+[10010,10020,10040, 10100, 10500, 20000, 9990, 9900, 9000, 5000, 1],dtype='float32')
print('grp', gammastd_grp(x,g,1,float(nd),ci).tolist())
