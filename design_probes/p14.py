import numpy as np, warnings
warnings.simplefilter('ignore')
import numba; print('boundscheck', numba.config.BOUNDSCHECK)
from hdc.algo.ops import ws2dgu, ws2dpgu, ws2doptv, ws2doptvp, ws2doptvplc, ws2dwcv, ws2dwcvp, lroo, tinterpolate, autocorr, autocorr_tyx, autocorr_1d
from hdc.algo.ops.stats import *
from hdc.algo.ops.stats import _mann_kendall_trend_gu, _mann_kendall_trend_gu_nd
from hdc.algo.ops.zonal import do_mean
from hdc.algo.ops.ws2doptvplc import ws2doptvplc_tyx
from hdc.algo.ops.ws2d import ws2d
def T(name,f):
    try: r=f(); print(name,'ok',np.asarray(r[0] if isinstance(r,tuple) else r).ravel()[:6])
    except Exception as e: print(name,'EXC',type(e).__name__,str(e)[:100])
sr2=np.array([0.,1.])
for n in (2,3,4,5,6):
    y=np.arange(1,n+1,dtype=float)*10
    T(f'ws2d n={n}',lambda: ws2d(y,10.,np.ones(n)))
    T(f'gu n={n}',lambda: ws2dgu(y,10.,-1.))
    T(f'pgu n={n}',lambda: ws2dpgu(y,10.,-1.,.9))
    T(f'optv n={n}',lambda: ws2doptv(y,-1.,sr2))
    T(f'optvp n={n}',lambda: ws2doptvp(y,-1.,.9,sr2))
    T(f'optvplc n={n}',lambda: ws2doptvplc(y.astype('int16'),-1.,.9,.7))
    T(f'wcv n={n}',lambda: ws2dwcv(y,-1.,sr2,True))
    T(f'wcvp n={n}',lambda: ws2dwcvp(y,-1.,.9,sr2,True))
    T(f'tyx n={n}',lambda: ws2doptvplc_tyx(y.reshape(-1,1,1).astype('int16'),.9,-1))
    T(f'autocorr n={n}',lambda: autocorr_1d(y.astype('int16'),-1))
    T(f'mk n={n}',lambda: _mann_kendall_trend_gu(y.astype('int16')))
    T(f'roll n={n}',lambda: rolling_sum(y.astype('int16'),n,-1))
    T(f'lroo n={n}',lambda: lroo(np.ones(n,'uint8')))
T('lroo n=1',lambda: lroo(np.ones(1,'uint8')))
T('roll n=1',lambda: rolling_sum(np.ones(1,'int16'),1,-1))
T('one valid gu',lambda: ws2dgu(np.array([-1.,-1,5,-1]),10.,-1.))
T('all missing wcv',lambda: ws2dwcv(np.array([-1.]*6),-1.,sr2,True))
T('mean_grp 1grp',lambda: mean_grp(np.array([1,2,3],'int16'),np.zeros(3,'int16'),1,-1))
T('gammastd_grp 1grp',lambda: gammastd_grp(np.array([1,2,3,5],'int16'),np.zeros(4,'int16'),1,-1,np.array([[0,4]],'int16')))
T('do_mean 1px',lambda: do_mean(np.ones((1,1,1),'int16'),np.zeros((1,1),'int16'),1,-1,-1))
tm=np.array([1.,0,0,1]); T('tinterp min',lambda: tinterpolate(np.array([3,9],'int16'),tm,np.array([1,1,2,2],'int32'),np.zeros(2,'uint8')))
T('spi yxt', lambda: gammastd_yxt(np.array([[[1,2,3.]]]),-1))
