import numpy as np, warnings, time, math
warnings.simplefilter('ignore')
from scipy.linalg import solveh_banded
from hdc.algo.ops import ws2dgu, ws2dpgu, ws2doptv, ws2doptvp, ws2doptvplc, ws2dwcv, ws2dwcvp
def solve(y,lam,w):
    n=len(y); ab=np.zeros((3,n))
    d=np.full(n,6.0); d[[0,-1]]=1; d[[1,-2]]=5
    ab[2]=w+lam*d
    s1=np.full(n,-4.0); s1[1]=-2; s1[-1]=-2; s1[0]=0
    ab[1]=lam*s1
    s2=np.full(n,1.0); s2[:2]=0
    ab[0]=lam*s2
    return solveh_banded(ab, w*np.where(w>0,y,0.0))
def vcurve_ref(y,valid,llas,p=None):
    w=valid.astype(float); n=len(y)
    fits=[];pens=[]; z=np.zeros(n)
    for ll in llas:
        lam=10**ll
        if p is None: z=solve(y,lam,w)
        else:
            for it in range(10):
                ww=w*np.where(y>z,p,1-p)
                znew=solve(y,lam,ww)
                if np.sum(np.abs(znew-z))==0: break
                z=znew
        fits.append(math.log(np.sum((w*(y-z))**2))); pens.append(math.log(np.sum(np.diff(z,2)**2)))
    fits=np.array(fits);pens=np.array(pens)
    step=llas[1]-llas[0]
    v=np.hypot(np.diff(fits),np.diff(pens))/(math.log(10)*step)
    mids=(llas[:-1]+llas[1:])/2
    return v,mids
def gcv_ref(y,valid,llas):
    w=valid.astype(float); m=len(y); n=w.sum()
    e=-2+2*np.cos(np.arange(m)*np.pi/m); e[0]=1e-15
    sc=[]
    for ll in llas:
        s=10**ll; z=solve(y,s,w)
        trH=(w/(w+s*e**2)).sum()
        sc.append(np.sum(w*(y-z)**2)/(n*(1-trH/n)**2))
    return np.array(sc)
rng=np.random.default_rng(2)
st=dict(n=0,v_bad=0,vp_bad=0,v_band_bad=0,vp_band_bad=0,g_bad=0,g_band=0,gp_bad=0,gp_band=0,nonfinite=0)
t0=time.time()
for k in range(1500):
    n=int(rng.integers(5,200)); t=np.arange(n)
    y=np.round(rng.uniform(-5000,5000)+rng.uniform(100,2000)*np.sin(t/rng.uniform(1,20))+rng.normal(0,rng.uniform(5,500),n))
    y=np.clip(y,-10000,10000)
    valid=rng.random(n)>=rng.choice([0,0.1,0.5])
    if valid.sum()<6: continue
    nd=-20000.; yy=y.copy(); yy[~valid]=nd
    start=rng.uniform(-3,1); step=rng.choice([0.1,0.2,0.5,1.0]); cnt=int(rng.integers(3,30))
    llas=start+step*np.arange(cnt)
    if llas[-1]>5: continue
    p=rng.uniform(0.05,0.95)
    st['n']+=1
    # vcurve
    v,mids=vcurve_ref(yy,valid,llas)
    if not np.isfinite(v).all(): st['nonfinite']+=1; continue
    o,l=ws2doptv(yy,nd,llas)
    k_=np.argmin(np.abs(np.log10(l)-mids))
    if abs(np.log10(l)-mids[k_])>1e-9 or v[k_]>v.min()*(1+1e-7): st['v_bad']+=1; print('v bad',np.log10(l),mids[np.argmin(v)],v[k_],v.min())
    if not np.array_equal(o, ws2dgu(yy,l,nd)): st['v_band_bad']+=1
    v,mids=vcurve_ref(yy,valid,llas,p)
    o,l=ws2doptvp(yy,nd,p,llas)
    k_=np.argmin(np.abs(np.log10(l)-mids))
    if abs(np.log10(l)-mids[k_])>1e-9 or v[k_]>v.min()*(1+1e-7): st['vp_bad']+=1; print('vp bad',n,np.log10(l),mids[np.argmin(v)],v[k_],v.min())
    if not np.array_equal(o, ws2dpgu(yy,l,nd,p)): st['vp_band_bad']+=1
    # gcv
    sc=gcv_ref(yy,valid,llas)
    o,l=ws2dwcv(yy,nd,llas,False)
    k_=np.argmin(np.abs(np.log10(l)-llas))
    if abs(np.log10(l)-llas[k_])>1e-9 or sc[k_]>sc.min()*(1+1e-7): st['g_bad']+=1; print('g bad',np.log10(l),llas[np.argmin(sc)],sc[k_],sc.min())
    if not np.array_equal(o, ws2dgu(yy,l,nd)): st['g_band']+=1
    o,l=ws2dwcvp(yy,nd,p,llas,False)
    k_=np.argmin(np.abs(np.log10(l)-llas))
    if abs(np.log10(l)-llas[k_])>1e-9 or sc[k_]>sc.min()*(1+1e-7): st['gp_bad']+=1
    if not np.array_equal(o, ws2dpgu(yy,l,nd,p)): st['gp_band']+=1
print(st,time.time()-t0)
