import sys, threading, time, numpy as np, warnings
warnings.simplefilter('ignore')
sys.setswitchinterval(1e-5)
from hdc.algo.ops import ws2dgu, ws2doptvp
N=int(sys.argv[1])
y=np.array([10, 12, 15, 13, 18, 22, 21, 25, 30, 28, 33, 31], dtype=float)
bar=threading.Barrier(N); res=[None]*N; err=[None]*N
def work(i):
    bar.wait()
    try: res[i]=ws2doptvp(y+i,-1.,0.9,np.arange(-2,2.1,0.5))
    except BaseException as e: err[i]=repr(e)
ts=[threading.Thread(target=work,args=(i,)) for i in range(N)]
t0=time.time()
[t.start() for t in ts]; [t.join() for t in ts]
print('time',time.time()-t0, 'errs',[e for e in err if e])
ref=[ws2doptvp(y+i,-1.,0.9,np.arange(-2,2.1,0.5)) for i in range(N)]
print(all(np.array_equal(a[0],b[0]) and a[1]==b[1] for a,b in zip(res,ref)))
