import numpy as np, warnings, xarray as xr, pandas as pd
warnings.simplefilter('ignore')
import hdc.algo
from hdc.algo.ops.stats import gammastd_yxt, gammastd_grp, gammastd
nd=-9999
def run(x, dtype='float64', **kw):
    x=np.asarray(x,dtype=dtype).reshape(1,1,-1)
    try: return gammastd_yxt(x, nd, **kw)[0,0].tolist()
    except Exception as e: return 'EXC '+repr(e)[:80]
base=[10,12,9,11,10,13,8,10,11,12]
print('extreme hi', run(base+[1e6]))
print('extreme hi2', run(base+[100, 200, 30, 20, 15,14]))
print('extreme lo', run(base+[1e-300, 1e-5, 0.1, 1, 5]))
print('all neg', run([-1,-2,-3,-4]))
print('all nodata', run([nd]*4))
print('all zero', run([0]*5))
print('const', run([5]*6))
print('neg mix', run(base+[-5]))
print('zeros mix', run([0,0,0,1,2,3,0,5]))
print('91% zeros', run([0]*11+[3]))
print('lowvar', run([10000,10001,10000,10002,10001,9999,10000, 10050, 9950, 12000, 8000]))
print('int16 lowvar', run([10000,10001,10000,10002,10001,9999,10000, 10050, 9950, 12000, 8000],'int16'))
# cube mixing bad pixel
cube=np.array([[base,[-1]*10],[[nd]*10,[0]*10]],dtype='float64')
try: print(gammastd_yxt(cube, nd))
except Exception as e: print('cube EXC', repr(e)[:100])
# group version
g=np.zeros(10,dtype='int16'); ci=np.array([[0,10]],dtype='int16')
for nm,x in (('neg',[-1.]*10),('ext',base[:-1]+[1e6])):
    try: print('grp',nm, gammastd_grp(np.array(x,dtype='float32'),g,1,float(nd),ci))
    except Exception as e: print('grp',nm,'EXC',repr(e)[:100])
