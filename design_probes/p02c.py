import numpy as np, warnings
warnings.simplefilter('ignore')
from hdc.algo.ops import ws2dgu, ws2dpgu, ws2doptv, ws2doptvp, ws2doptvplc, ws2dwcv, ws2dwcvp
sr=np.arange(-2,2.1,0.5); rng=np.random.default_rng(0)
V={'gu':(lambda y,nd:(ws2dgu(y,10.,nd),None),2),'pgu':(lambda y,nd:(ws2dpgu(y,10.,nd,.9),None),2),'optv':(lambda y,nd:ws2doptv(y,nd,sr),2),
'optvp':(lambda y,nd:ws2doptvp(y,nd,.9,sr),2),'optvplc':(lambda y,nd:ws2doptvplc(y.astype('int16'),nd,.9,.7),2),
'wcvF':(lambda y,nd:ws2dwcv(y,nd,sr,False),5),'wcvT':(lambda y,nd:ws2dwcv(y,nd,sr,True),5),'wcvpF':(lambda y,nd:ws2dwcvp(y,nd,.9,sr,False),5),'wcvpT':(lambda y,nd:ws2dwcvp(y,nd,.9,sr,True),5)}
res={}
for name,(f,need) in V.items():
    for k in range(0,7):
        for trial in range(20):
            n=int(rng.integers(max(k,4),30)); y=np.full(n,-3000.); idx=rng.choice(n,k,replace=False); y[idx]=rng.integers(100,9000,k)
            o,l=f(y,-3000.)
            passthrough = np.array_equal(o,y.astype('int16')) and (l is None or l==0)
            key=(name,k)
            res.setdefault(key,set()).add(passthrough)
for name,(f,need) in V.items():
    print(name,need,{k:sorted(res[(name,k)]) for k in range(7)})
