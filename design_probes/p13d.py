import numpy as np, warnings, types, numba, importlib, math
warnings.simplefilter('ignore')
from numba.core.registry import CPUDispatcher
from numba.core import types as nbt
MODS=[importlib.import_module('hdc.algo.ops.'+m) for m in ('ws2d','ws2dgu','ws2dpgu','ws2doptv','ws2doptvp','ws2doptvplc','ws2dwcv','ws2dwcvp','stats','autocorr','lroo','tinterpolate','zonal')]
NBMAP={nbt.float64:np.float64, nbt.float32:np.float32, nbt.int16:np.int16, nbt.int32:np.int32, nbt.int64:np.int64, nbt.uint8:np.uint8, nbt.boolean:np.bool_}
class NpProxy:
    def __init__(self): self.rounded=[]
    def __getattr__(self, k): return getattr(np,k)
    def round(self, a, decimals=0, out=None):
        self.rounded.append(np.array(a,copy=True))
        r=np.round(a,decimals)
        if out is None: return r
        with np.errstate(invalid='ignore'): out[...]=r.astype(out.dtype) if out.dtype!=r.dtype else r
        return out
class NumbaShim:
    prange=staticmethod(range)
    def __getattr__(self,k): return getattr(numba,k)
_twins={}
PROXY=NpProxy()
def source_of(obj):
    if isinstance(obj,CPUDispatcher): return obj.py_func
    if hasattr(obj,'__wrapped__'):
        w=obj.__wrapped__
        return w
    return None
def twin(obj):
    src=source_of(obj)
    if src is None: return obj
    key=id(src)
    if key in _twins: return _twins[key]
    g={}
    f=types.FunctionType(src.__code__, g, src.__name__, src.__defaults__, src.__closure__)
    f.__kwdefaults__=src.__kwdefaults__
    _twins[key]=f
    for k,v in src.__globals__.items():
        if isinstance(v,CPUDispatcher) or (callable(v) and hasattr(v,'__wrapped__') and getattr(v,'__module__','').startswith('hdc.algo.ops')): g[k]=twin(v)
        elif v is np: g[k]=PROXY
        elif v is numba: g[k]=NumbaShim()
        elif isinstance(v,nbt.Type) and v in NBMAP: g[k]=NBMAP[v]
        else: g[k]=v
    return f
import hdc.algo.ops as ops
from hdc.algo.ops import stats, zonal as zmod
from hdc.algo.ops.ws2d import ws2d
from hdc.algo.ops.ws2doptvp import _ws2doptvp
from hdc.algo.ops.ws2dwcvp import _ws2dwcvp
from hdc.algo.ops.ws2doptvplc import ws2doptvplc_tyx
rng=np.random.default_rng(0)
n=40
y=np.round(3000+2000*np.sin(np.arange(n)/5)+rng.normal(0,300,n)); y[[3,4,17]]=-1
def cmp(name, comp, tw):
    try:
        a=comp(); b=tw()
        a=a if isinstance(a,tuple) else (a,); b=b if isinstance(b,tuple) else (b,)
        ok=all(np.allclose(np.asarray(x,dtype=float),np.asarray(z,dtype=float),rtol=1e-9,atol=0,equal_nan=True) for x,z in zip(a,b))
        md=max(float(np.nanmax(np.abs(np.asarray(x,dtype=float)-np.asarray(z,dtype=float)))) for x,z in zip(a,b))
        print(name,'OK' if ok else 'DIFF',md)
    except Exception as e: print(name,'EXC',type(e).__name__,str(e)[:120])
def gu(kern, ins, outs):
    t=twin(kern)
    def run():
        o=[np.zeros(s,dtype=d) for s,d in outs]; t(*ins,*o); return tuple(o)
    return run
cube=np.stack([y,y[::-1],np.roll(y,5),y+100],1).reshape(n,2,2).astype('int16')
import sys; acm=sys.modules['hdc.algo.ops.autocorr']

xi=y.astype('int16'); xf=y.astype('float32'); xf[y==-1]=np.nan
cmp('ac_1d_int i16', lambda: acm.autocorr_1d_int(xi,-1), lambda: twin(acm.autocorr_1d_int)(xi,-1))
cmp('ac_1d_int i64', lambda: acm.autocorr_1d_int(xi,-1), lambda: twin(acm.autocorr_1d_int)(xi.astype('int64'),-1))
cmp('ac_1d_float', lambda: acm.autocorr_1d_float(xf), lambda: twin(acm.autocorr_1d_float)(xf))
cmp('ac_1d', lambda: acm.autocorr_1d(xi.astype('int64'),-1), lambda: twin(acm.autocorr_1d)(xi.astype('int64'),-1))
cmp('autocorr', lambda: acm.autocorr(cube.transpose(1,2,0).astype('int64'),-1), lambda: twin(acm.autocorr)(cube.transpose(1,2,0).astype('int64'),-1))
cmp('autocorr_tyx', lambda: acm.autocorr_tyx(cube.astype('int64'),-1), lambda: twin(acm.autocorr_tyx)(cube.astype('int64'),-1))

for dt in ('int16','int64'):
    c=cube.astype(dt)
    for over in ('ignore','raise'):
        def tw():
            with np.errstate(over=over): return twin(ws2doptvplc_tyx)(c,.9,-1)
        cmp('tyx %s over=%s'%(dt,over), lambda: ws2doptvplc_tyx(c,.9,-1), tw)
a=ws2doptvplc_tyx(cube,.9,-1); b=ws2doptvplc_tyx(cube.astype('int64'),.9,-1)
print('compiled int16 vs int64', np.array_equal(a[0],b[0]), np.array_equal(a[1],b[1]))
