import numpy as np, warnings, numba
warnings.simplefilter('ignore')
from scipy import special as sc
# can p0+(1-p0)*1.0 exceed 1?
cnt=0
for nz in range(0,60):
    for nv in range(max(nz,1),80):
        p0=nz/nv
        if p0>0.9: continue
        v=p0+(1-p0)*1.0
        if v>1.0: cnt+=1; ex=(nz,nv,v)
print('p>1 cases',cnt, ex if cnt else None, sc.ndtri(1.0000000000000002))
from hdc.algo.ops.stats import gammastd_yxt
if cnt:
    nz,nv,_=ex
    x=np.array([0]*nz+[10,11,9,10,12,8,10,11][: nv-nz-1]+[1e6],dtype=float)
    x=np.concatenate([x, ]) 
    print(len(x), gammastd_yxt(x.reshape(1,1,-1),-9999.)[0,0][-3:])
# thread counts
from hdc.algo.ops.ws2doptvplc import ws2doptvplc_tyx
rng=np.random.default_rng(0)
cube=(3000+2000*np.sin(np.arange(60)[:,None,None]/5)+rng.normal(0,300,(60,12,9))).astype('int16'); cube[rng.random(cube.shape)<0.1]=-3000
ref=None
for k in (1,2,3,5,8,16):
    numba.set_num_threads(k); z,l=ws2doptvplc_tyx(cube,0.9,-3000)
    if ref is None: ref=(z.copy(),l.copy())
    print(k, np.array_equal(z,ref[0]), np.array_equal(l,ref[1]))
