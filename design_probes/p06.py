import numpy as np, warnings
warnings.simplefilter('ignore')
from hdc.algo.ops import ws2dgu, ws2dpgu, ws2doptv, ws2doptvp, ws2doptvplc, ws2dwcv, ws2dwcvp
rng = np.random.default_rng(5)
def variants(sr, lam, p, lc):
    return {
 'gu': lambda y,nd: (ws2dgu(y,lam,nd),0),
 'pgu': lambda y,nd: (ws2dpgu(y,lam,nd,p),0),
 'optv': lambda y,nd: ws2doptv(y,nd,sr),
 'optvp': lambda y,nd: ws2doptvp(y,nd,p,sr),
 'optvplc': lambda y,nd: ws2doptvplc(y.astype('int16'),nd,p,lc),
 'wcvF': lambda y,nd: ws2dwcv(y,nd,sr,False),
 'wcvT': lambda y,nd: ws2dwcv(y,nd,sr,True),
 'wcvpF': lambda y,nd: ws2dwcvp(y,nd,p,sr,False),
 'wcvpT': lambda y,nd: ws2dwcvp(y,nd,p,sr,True),
}
stat={}
def rec(name, kind, ok, info=None):
    s=stat.setdefault((name,kind),[0,0,None]); s[0]+=1
    if not ok:
        s[1]+=1
        if s[2] is None: s[2]=info
for it in range(400):
    n = int(rng.integers(6,80))
    t = np.arange(n)
    sr = np.arange(rng.uniform(-3,0), rng.uniform(1,4), rng.choice([0.2,0.5,1.0]))
    if len(sr)<3: continue
    lam = 10**rng.uniform(-3,5); p=rng.uniform(0.05,0.95); lc=rng.uniform(-1,1)
    V = variants(sr,lam,p,lc)
    miss = rng.random(n) < rng.choice([0,0.1,0.4])
    if (~miss).sum()<6: continue
    nd=-9999.
    # linear
    a=int(rng.integers(-50,50)); b=int(rng.integers(-3000,3000))
    yl=(a*t+b).astype(float)
    if np.abs(yl).max()>10000: continue
    ylm=yl.copy(); ylm[miss]=nd
    for name,f in V.items():
        o,l=f(ylm,nd)
        rec(name,'linear', np.array_equal(o, yl.astype('int16')), (a,b,n,int(miss.sum()),o[:6].tolist(),yl[:6].tolist()))
    # offset
    y = np.round(3000+2000*np.sin(t/ rng.uniform(2,10)) + rng.normal(0,300,n))
    c = int(rng.integers(-3000,3000))
    ym=y.copy(); ym[miss]=nd
    yc=y+c; yc[miss]=nd+c
    for name,f in V.items():
        o1,l1=f(ym,nd); o2,l2=f(yc,nd+c)
        d = np.abs(o2.astype(int)-c-o1.astype(int))
        rec(name,'offset_exact', l1==l2 and d.max()==0, (l1,l2,int(d.max()),int((d>0).sum())))
        rec(name,'offset_le1', l1==l2 and d.max()<=1, (l1,l2,int(d.max()),int((d>0).sum())))
    # reversal
    for name in ('gu','pgu','optv','optvp','optvplc'):
        f=V[name]
        o1,l1=f(ym,nd); o2,l2=f(ym[::-1].copy(),nd)
        d=np.abs(o2[::-1].astype(int)-o1.astype(int))
        rec(name,'reverse', l1==l2 and d.max()==0, (l1,l2,int(d.max()),int((d>0).sum())))
for k in sorted(stat): print(k, stat[k])
