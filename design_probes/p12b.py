import numpy as np, warnings, xarray as xr, pandas as pd, dask, dask.array as da
warnings.simplefilter('ignore')
import hdc.algo
rng=np.random.default_rng(0)
T,Y,X=12,5,7
t=pd.date_range('2000-01-01',periods=T,freq='10D')
zones=xr.DataArray(rng.integers(0,3,(Y,X)).astype('int16'),dims=('y','x'),attrs={'nodata':-1})
sr=np.arange(-2,2.1,0.5)
ops={
'whits': lambda a: a.hdc.whit.whits(nodata=-9999,s=10.),
'whitsvc': lambda a: a.hdc.whit.whitsvc(nodata=-9999,srange=sr),
'whitswcv': lambda a: a.hdc.whit.whitswcv(nodata=-9999,srange=sr,robust=False),
'spi': lambda a: a.hdc.algo.spi(),
'spi grp': lambda a: a.hdc.algo.spi(groups=[0,1,2]*4),
'lroo': lambda a: (a>1500).astype('uint8').hdc.algo.lroo(),
'croo': lambda a: (a>1500).astype('uint8').hdc.algo.croo(),
'autocorr': lambda a: a.hdc.algo.autocorr(),
'mktrend': lambda a: a.hdc.algo.mktrend(),
'mean_grp': lambda a: a.hdc.algo.mean_grp(np.array([0,1,2]*4,dtype='int16')),
'rolling': lambda a: a.hdc.rolling.sum(3),
'zonal': lambda a: a.hdc.zonal.mean(zones,[0,1,2]),
'zonal64': lambda a: a.hdc.zonal.mean(zones,[0,1,2],dtype='float64'),
}
for dt in ('int16','float32','int32','int64','float64'):
    data=rng.integers(1,3000,(T,Y,X)).astype(dt)
    d=xr.DataArray(data,dims=('time','y','x'),coords={'time':t,'y':np.arange(Y),'x':np.arange(X)},attrs={'nodata':-9999},name='band')
    for name,f in ops.items():
        try: e=f(d)
        except Exception as ex: print(dt,name,'eager EXC',type(ex).__name__,str(ex)[:60].replace('\n',' ')); continue
        try:
            l=f(d.chunk({'time':-1,'y':2,'x':3})); c=l.compute()
        except Exception as ex: print(dt,name,'lazy EXC',type(ex).__name__,str(ex)[:60].replace('\n',' ')); continue
        def dts(o): return {k:str(v.dtype) for k,v in o.data_vars.items()} if isinstance(o,xr.Dataset) else str(o.dtype)
        flag = '' if dts(e)==dts(l)==dts(c) else '   <<<<<'
        print(dt,name,'eager',dts(e),'lazy-declared',dts(l),'computed',dts(c),flag)
