import numpy as np, warnings, xarray as xr, pandas as pd
warnings.simplefilter('ignore')
import hdc.algo
from hdc.algo.ops import autocorr_1d, lroo
from hdc.algo.ops.stats import rolling_sum, mean_grp
from hdc.algo.ops.zonal import do_mean
def ref(x, nodata=None):
    x=x.astype('float64')
    if nodata is not None: x[x==nodata]=np.nan
    X=x[:-1].copy(); Y=x[1:].copy()
    if np.isnan(X).all() or np.isnan(Y).all(): return 0.0
    X[np.isnan(X)]=np.nanmean(X); Y[np.isnan(Y)]=np.nanmean(Y)
    if X.std()==0 or Y.std()==0: return 0.0
    return ((X-X.mean())*(Y-Y.mean())).mean()/(X.std()*Y.std())
rng=np.random.default_rng(0)
n=200
x=(5000+3000*np.sin(np.arange(n)/8)+rng.normal(0,200,n)).astype('int16')
for gap in (0,5,20,100,150,180):
    y=x.copy(); y[20:20+gap]=-3000
    print('C15 gap',gap, autocorr_1d(y,-3000), ref(y,-3000))
yf=x.astype('float32'); yf[20:120]=np.nan
print('C15 float', autocorr_1d(yf), ref(yf))
# C17
print('C17 rolling', rolling_sum(np.array([1,2,-9999,4,5,6],dtype='int16'),3,-9999.))
print('C17 rolling', rolling_sum(np.array([1,2,-9999,-9999,-9999,6],dtype='int16'),3,-9999.))
print('C17 meangrp', mean_grp(np.array([1,2,-9999,4,5,6],dtype='int16'),np.array([0,0,0,1,1,1],dtype='int16'),2,-9999.))
print('C17 meangrp', mean_grp(np.array([-9999,-9999,-9999,4,5,6],dtype='int16'),np.array([0,0,0,1,1,1],dtype='int16'),2,-9999.))
print('C17 meangrp big', mean_grp(np.array([30000,30000,30000,4,5,6],dtype='int16'),np.array([0,0,0,1,1,1],dtype='int16'),2,-9999.))
# C18
print('C18 lroo 300', lroo(np.ones(300,dtype='uint8')), lroo(np.ones(256,dtype='uint8')), lroo(np.ones(255,dtype='uint8')))
t=pd.date_range('2000-01-01',periods=6,freq='10D')
d=xr.DataArray(np.array([0,1,1,0,1,1]).reshape(6,1,1),dims=('time','y','x'),coords={'time':t})
print('C18 croo sorted', d.hdc.algo.croo().values.ravel(), 'shuffled', d.isel(time=[3,5,0,4,1,2]).hdc.algo.croo().values.ravel())
# C16
for N in (1000, 2**24+10, 3*10**7):
    pix=np.full((1,1,N), 1000, dtype='int16'); pix[0,0,::2]=1001
    z=np.zeros((1,N),dtype='int16')
    r=do_mean(pix,z,1,-9999,-1)
    r64=do_mean(pix,z,1,-9999,-1,np.float64)
    print('C16',N,r, r64, pix.mean())
