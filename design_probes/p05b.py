import numpy as np, warnings, time, math
warnings.simplefilter('ignore')
from scipy.linalg import solveh_banded
from hdc.algo.ops import ws2dwcv, ws2dwcvp
def solve(y,lam,w):
    n=len(y); ab=np.zeros((3,n))
    d=np.full(n,6.0); d[[0,-1]]=1; d[[1,-2]]=5
    ab[2]=w+lam*d
    s1=np.full(n,-4.0); s1[1]=-2; s1[-1]=-2; s1[0]=0
    ab[1]=lam*s1
    s2=np.full(n,1.0); s2[:2]=0
    ab[0]=lam*s2
    return solveh_banded(ab, w*np.where(w>0,y,0.0))
def robust_ref(y,valid,llas,p=None):
    m=len(y); w=valid.astype(float); n=w.sum()
    e=-2+2*np.cos(np.arange(m)*np.pi/m); e[0]=1e-15
    rw=np.ones(m); best=(1e15,0.0); ybest=None; hist=[]; margin=np.inf; degenerate=False
    for it in range(4):
        grid=10**llas if it<=1 else np.array([hist[1][1]])
        wt=w*rw
        for s in grid:
            z=solve(y,s,wt)
            trH=(wt/(wt+s*e**2)).sum()
            score=np.sum(wt*(y-z)**2*(wt>0))/(wt.sum()*(1-trH/wt.sum())**2)
            if score<best[0]: best=(score,s); ybest=z
        s=best[1]
        trH=(wt/(wt+s*e**2)).sum()
        r=np.where(valid,y-ybest,0.0)
        sel=valid&(rw!=0)
        mad=np.median(np.abs(r[sel]-np.median(r[sel])))
        if mad>0:
            u=r/(1.4826*mad*np.sqrt(1-trH/n))
            margin=min(margin, np.min(np.abs(np.abs(u[valid]/4.685)-1)))
            rw=(1-(u/4.685)**2)**2; rw[np.abs(u/4.685)>1]=0; rw[r>0]=1
        else: degenerate=True
        hist.append(best)
    lopt=hist[1][1]
    fw=w*rw
    if p is None: z=solve(y,lopt,fw)
    else:
        z=np.zeros(m)
        for _ in range(10):
            ww=fw*np.where(y>z,p,1-p); zn=solve(y,lopt,ww)
            if np.sum(np.abs(zn-z))==0: z=zn;break
            z=zn
    return z,lopt,margin,degenerate
rng=np.random.default_rng(4)
st=dict(n=0,bad=0,bad_nf=0,lbad=0,deg=0,fragile=0)
for k in range(800):
    n=int(rng.integers(6,150)); t=np.arange(n)
    y=np.round(rng.uniform(-3000,3000)+rng.uniform(100,2000)*np.sin(t/rng.uniform(1,20))+rng.normal(0,rng.uniform(5,500),n))
    if rng.random()<0.3: y[rng.integers(0,n,3)]-=rng.uniform(500,3000)   # negative outliers (clouds)
    y=np.clip(y,-10000,10000)
    valid=np.ones(n,bool)   # gap-free: the current implementation is the definition here
    llas=rng.uniform(-2,0)+rng.choice([0.2,0.5])*np.arange(int(rng.integers(3,25)))
    p=None if rng.random()<0.5 else rng.uniform(0.1,0.9)
    z,l,marg,deg=robust_ref(y,valid,llas,p)
    if deg: st['deg']+=1; continue
    st['n']+=1
    o,lo=(ws2dwcv(y,-20000.,llas,True) if p is None else ws2dwcvp(y,-20000.,p,llas,True))
    if abs(lo-l)>1e-9*l: st['lbad']+=1
    d=np.abs(o-np.rint(z)); tie=np.abs(np.abs(z-np.floor(z))-0.5)<1e-6
    if (d[~tie]>0).any():
        st['bad']+=1
        if marg>1e-6: st['bad_nf']+=1; print('nonfragile mismatch',n,p,marg,d.max(),lo,l)
    if marg<=1e-6: st['fragile']+=1
print(st)
