"""Per-property manifest entries (source of MANIFEST.json, see tools_manifest.py)."""
FIX_COMMITS = ["89657fc (C18 lroo uint8)", "99b18da (C02 NaN/inf cells)"]
NOT_APPLICABLE = {}
CHECKS = {
 "C01": dict(level="exploration",
   text="Hypothesis-generated (n, y, w, lambda) incl. zero-weight runs and fractional weights. The decisive oracle is exact: ws2d's own code object executed on Fractions must equal Gaussian elimination on the dense normal equations (no tolerance). The compiled float64 result is then compared with that exact solution under a conditioning-aware forward bound and a backward-error bound evaluated in rationals. Sampled, not exhaustive.",
   note="Trusts Python Fractions and numpy.linalg.cond; the literal 1e-6 of the float clause is demanded for kappa_2<=3e8, kappa*u-proportional beyond (unattainable otherwise).",
   technique="property-based testing: Hypothesis generation against an exact-rational reference solve (differential) + error-bound predicates"),
 "C02": dict(level="exploration",
   text="Hypothesis-generated series x gap pattern x nine smoother configurations x 2..5 placeholder encodings (finite below/inside/above, 0, NaN, +-inf). Metamorphic oracle: bit-identical output and lambda across encodings; reference oracle: LAPACK curve fitted to valid cells only, compared under the rounding-tie rule at every cell; passthrough predicate below the valid-count thresholds. Sampled.",
   note="Trusts LAPACK banded Cholesky as reference; tie/fragility rules of DESIGN 2.5/2.7; cases whose curve leaves int16 discarded (counted).",
   technique="property-based testing: metamorphic relation over placeholder encodings + independent reference model"),
 "C18": dict(level="exploration",
   text="Complete enumeration of all binary series up to length 16 (20 thorough) through the compiled lroo gufunc and the accessor, all permutations of the stored time order for croo up to n=5 (7), plus Hypothesis-generated run-length-encoded series up to 1000 steps with runs beyond 255, against a plain run-length model. Exhaustive on the small domain, sampled beyond; absence is not established outside what was enumerated.",
   note="Trusts numpy/xarray/pandas input construction; croo claimed for 0/1 arrays with unique timestamps.",
   technique="property-based testing: exhaustive small-domain enumeration + Hypothesis generation against a reference model"),
}
