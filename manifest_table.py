"""Per-property manifest entries (source of MANIFEST.json, see tools_manifest.py)."""
FIX_COMMITS = ["89657fc (C18 lroo uint8)"]
NOT_APPLICABLE = {}
CHECKS = {
 "C18": dict(level="exploration",
   text="Complete enumeration of all binary series up to length 16 (20 thorough) through the compiled lroo gufunc and the accessor, all permutations of the stored time order for croo up to n=5 (7), plus Hypothesis-generated run-length-encoded series up to 1000 steps with runs beyond 255, against a plain run-length model. Exhaustive on the small domain, sampled beyond; absence is not established outside what was enumerated.",
   note="Trusts numpy/xarray/pandas input construction; croo claimed for 0/1 arrays with unique timestamps.",
   technique="property-based testing: exhaustive small-domain enumeration + Hypothesis generation against a reference model"),
}
