"""Per-property manifest entries (source of MANIFEST.json, see tools_manifest.py)."""
FIX_COMMITS = ["89657fc (C18 lroo uint8)", "99b18da (C02 NaN/inf cells)", "fc9bd29 (C04 lc=NaN grid)", "89000f9 (C15 autocorr with gaps)"]
NOT_APPLICABLE = {}
CHECKS = {
 "C03": dict(level="exploration",
   text="Hypothesis-generated series x gaps x lambda in 10^[-3,5] (and 0) x p at kernel level, and small cubes with permuted dims, s= / sg= (with -inf cells), int16/float inputs at accessor level. Oracle: rint of an independent LAPACK solve, resp. of an explicit 10-pass IRLS model from the zero curve, under the rounding-tie rule; accessor pixels must equal the kernel oracle with lambda=10**sg. Sampled.",
   note="Trusts LAPACK; fragile envelope decisions (|y-z| below float noise) are excluded from the equality oracle and counted.",
   technique="property-based testing: Hypothesis generation against an independent reference model (LAPACK solve + IRLS model)"),
 "C04": dict(level="exploration",
   text="Hypothesis-generated series x gaps x uniformly spaced sranges x p / lc (incl. NaN, 0.5+-ulp) for the three V-curve kernels, the prange driver and the whitsvc accessor. Oracles: reported lambda is a grid midpoint and lies in the near-minimiser set of an independent V-curve model (tolerance calibrated from the disagreement of two LAPACK solvers); band bit-equal to the fixed-lambda smoother at that lambda; sgrid == float32(log10 lopt); grid choice from lc. Sampled.",
   note="Series whose reference V-curve is not finite/resolvable (constant, linear, interpolating fits) are counted and held to self-consistency only.",
   technique="property-based testing: reference-model optimality check + in-package differential (band vs fixed smoother)"),
 "C15": dict(level="exploration",
   text="Hypothesis-generated series x gap patterns incl. contiguous outages up to 90 % in int16/nodata and float/NaN encodings; oracles: independent two-pass mean-filled Pearson model (1e-6), range bound, affine invariance, encoding equality, layout/driver/accessor equality. Sampled.",
   note="Non-integral float data are judged only where the conditioning of single-pass sums leaves room for 1e-6 (counted otherwise).",
   technique="property-based testing: reference model + metamorphic relations (affine map, encoding, layout)"),
 "C01": dict(level="exploration",
   text="Hypothesis-generated (n, y, w, lambda) incl. zero-weight runs and fractional weights. The decisive oracle is exact: ws2d's own code object executed on Fractions must equal Gaussian elimination on the dense normal equations (no tolerance). The compiled float64 result is then compared with that exact solution under a conditioning-aware forward bound and a backward-error bound evaluated in rationals. Sampled, not exhaustive.",
   note="Trusts Python Fractions and numpy.linalg.cond; the literal 1e-6 of the float clause is demanded for kappa_2<=3e8, kappa*u-proportional beyond (unattainable otherwise).",
   technique="property-based testing: Hypothesis generation against an exact-rational reference solve (differential) + error-bound predicates"),
 "C02": dict(level="exploration",
   text="Hypothesis-generated series x gap pattern x nine smoother configurations x 2..5 placeholder encodings (finite below/inside/above, 0, NaN, +-inf). Metamorphic oracle: bit-identical output and lambda across encodings; reference oracle: LAPACK curve fitted to valid cells only, compared under the rounding-tie rule at every cell; passthrough predicate below the valid-count thresholds. Sampled.",
   note="Trusts LAPACK banded Cholesky as reference; tie/fragility rules of DESIGN 2.5/2.7; cases whose curve leaves int16 discarded (counted).",
   technique="property-based testing: metamorphic relation over placeholder encodings + independent reference model"),
 "C18": dict(level="exploration",
   text="Complete enumeration of all binary series up to length 16 (20 thorough) through the compiled lroo gufunc and the accessor, all permutations of the stored time order for croo up to n=5 (7), plus Hypothesis-generated run-length-encoded series up to 1000 steps with runs beyond 255, against a plain run-length model. Exhaustive on the small domain, sampled beyond; absence is not established outside what was enumerated.",
   note="Trusts numpy/xarray/pandas input construction; croo claimed for 0/1 arrays with unique timestamps.",
   technique="property-based testing: exhaustive small-domain enumeration + Hypothesis generation against a reference model"),
}
